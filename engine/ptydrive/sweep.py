"""Runs a list of process-level jobs (each one real execution, or a small batch of them) on a worker pool and
aggregates them into a vcheck.Layer. A reported violation is re-executed `confirm` times sequentially and only kept
when it fails every time (same class); otherwise it is counted as unconfirmed (never a VIOLATION)."""
import multiprocessing as mp
import os
import signal
import sys
import time
import traceback

sys.path.insert(0, os.path.join(os.path.dirname(os.path.abspath(__file__)), "..", "..", "lib"))
import vcheck  # noqa: E402
import ptydrive as P  # noqa: E402


def _init(fzf, workroot):
    signal.signal(signal.SIGINT, signal.SIG_IGN)
    P.set_fzf(fzf, workroot)
    P.become_subreaper()


def _call(arg):
    fn, job = arg
    try:
        r = fn(job)
        if r is None:
            r = {}
        r["job"] = job
        return r
    except Exception as e:  # a driver defect, not a property violation
        return {"job": job, "error": "%s\n%s" % (e, traceback.format_exc()[-1500:])}


def kill_descendants():
    me = os.getpid()
    for _ in range(3):
        ds = P.descendants(me)
        if not ds:
            return
        for p in ds:
            try:
                os.kill(p, signal.SIGKILL)
            except OSError:
                pass
        time.sleep(0.05)
        try:
            while os.waitpid(-1, os.WNOHANG)[0]:
                pass
        except ChildProcessError:
            pass


def run_jobs(c, name, fn, jobs, rule="", nworkers=None, deadline_s=120, confirm=5, fzf=None, max_errors=20):
    """fn(job) -> dict(evals=, nt=, states=, trans=, outcome=, sample=, violation=(class, detail) or None, inconclusive=str or None)"""
    nworkers = nworkers or vcheck.NCPU
    L = vcheck.Layer(name, rule)
    t0 = time.time()
    workroot = os.path.join(c.work, "pty")
    os.makedirs(workroot, exist_ok=True)
    # VERIF_SWEEP_CAP_S: optional upper bound on any layer's time budget (the layer then reports the cap it hit)
    deadline_s = min(deadline_s, float(os.environ.get("VERIF_SWEEP_CAP_S", "1e12")))
    fzf = fzf or P.FZF
    P.set_fzf(fzf, workroot)
    P.become_subreaper()
    jobs = list(jobs)
    ctx = mp.get_context("fork")
    pool = ctx.Pool(nworkers, initializer=_init, initargs=(fzf, workroot))
    pending_confirm = []
    errors = []
    done = 0
    try:
        it = pool.imap_unordered(_call, ((fn, j) for j in jobs), chunksize=1)
        while True:
            remaining = deadline_s - (time.time() - t0)
            if remaining <= 0:
                L.cap("time: %d of %d jobs done" % (done, len(jobs)))
                break
            try:
                r = it.next(timeout=max(1.0, remaining))
            except StopIteration:
                break
            except mp.TimeoutError:
                L.cap("time: %d of %d jobs done" % (done, len(jobs)))
                break
            done += 1
            if "error" in r:
                errors.append(r)
                if len(errors) > max_errors:
                    break
                continue
            _merge(L, r)
            if r.get("violation"):
                pending_confirm.append(r)
        # confirmation runs (on an otherwise idle pool)
        if errors:
            raise vcheck.Broken("driver error in layer %s (%d jobs): %s" % (name, len(errors), errors[0]["error"]))
        seen_cls = {}
        confirmed_unknown = 0
        known_cls = {f["class"] for f in c.known()}
        for r in pending_confirm:
            cls, detail = r["violation"]
            nconf = 1 if cls in known_cls else confirm
            if seen_cls.get(cls, 0) >= 3:
                L.vclasses[cls] = L.vclasses.get(cls, 0) + 1  # counted, not re-confirmed one by one
                continue
            if confirmed_unknown >= 4 and cls not in known_cls:
                # the verdict of this layer is settled by confirmed violations; the rest is counted as seen once, not re-run
                L.counters["violations_not_reconfirmed"] = L.counters.get("violations_not_reconfirmed", 0) + 1
                continue
            # the re-runs are independent sessions: run them side by side (at most `confirm` of the workers are busy)
            rrs = pool.map(_call, [(fn, r["job"])] * nconf, chunksize=1)
            fails = sum(1 for rr in rrs if rr.get("violation") and rr["violation"][0] == cls)
            if fails == nconf:
                seen_cls[cls] = seen_cls.get(cls, 0) + 1
                d = dict(detail)
                d["job"] = r["job"]
                d["confirmed_runs"] = nconf
                L.violation(cls, d)
                if cls not in known_cls:
                    confirmed_unknown += 1
            else:
                L.counters["unconfirmed_disagreements"] = L.counters.get("unconfirmed_disagreements", 0) + 1
                if len(L.notes) < 10:
                    L.notes.append("unconfirmed (%d/%d re-runs failed): %s %s" % (fails, nconf, cls, str(r["job"])[:300]))
    finally:
        pool.terminate()
        pool.join()
        kill_descendants()
    L.wall_s = time.time() - t0
    c.add_layer(L)
    return L


def _merge(L, r):
    L.evaluations += r.get("evals", 1)
    L.nontrivial += r.get("nt", 0)
    L.states += r.get("states", 0)
    L.transitions += r.get("trans", 0)
    o = r.get("outcome")
    if o is not None:
        if isinstance(o, (list, tuple, set)):
            for k in o:
                L.outcomes[str(k)] = L.outcomes.get(str(k), 0) + 1
        else:
            L.outcomes[str(o)] = L.outcomes.get(str(o), 0) + 1
    if r.get("sample") is not None and len(L.samples) < 6:
        L.samples.append(r["sample"])
    for k, v in (r.get("counters") or {}).items():
        L.counters[k] = L.counters.get(k, 0) + v
    if r.get("inconclusive"):
        L.counters["inconclusive"] = L.counters.get("inconclusive", 0) + 1
        if len(L.notes) < 10:
            L.notes.append("inconclusive: " + str(r["inconclusive"])[:300])
