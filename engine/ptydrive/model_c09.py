"""Reference model for C09: a readline-style query editor, a list cursor and a multi-selection set.
Written from the man page (KEY/EVENT BINDINGS, action list); the list of matches for a query comes from a real
`fzf --filter` run over the same input with the same options (C08 is the property that ties the two together)."""
import re

import ptydrive as P


def isw(c):
    return c.isalnum()


class Model:
    def __init__(self, lines, query="", multi=0, cycle=False, reverse=False, max_items=12, filter_args=()):
        self.lines = lines
        self.inp = list(query)
        self.cx = len(query)
        self.yank = []
        self.cy = 0
        self.sel = []  # selection order
        self.multi = multi
        self.cycle = cycle
        self.reverse = reverse
        self.max_items = max_items
        self.filter_args = tuple(filter_args)

    def clone(self):
        m = Model(self.lines, "", self.multi, self.cycle, self.reverse, self.max_items, self.filter_args)
        m.inp, m.cx, m.yank, m.cy, m.sel = list(self.inp), self.cx, list(self.yank), self.cy, list(self.sel)
        return m

    def matches(self):
        return P.fzf_filter(self.lines, "".join(self.inp), self.filter_args)[0]

    def clamp(self):
        n = len(self.matches())
        self.cy = max(0, min(self.cy, n - 1))

    def cur(self):
        m = self.matches()
        return m[self.cy] if 0 <= self.cy < len(m) else None

    def vset(self, o):
        n = len(self.matches())
        self.cy = max(0, min(o, n - 1)) if n else 0

    def vmove(self, d, allow_cycle=True):
        if self.reverse:
            d = -d
        n = len(self.matches())
        dest = self.cy + d
        if self.cycle and allow_cycle:
            if dest > n - 1:
                if self.cy == n - 1:
                    dest = 0
            elif dest < 0:
                if self.cy == 0:
                    dest = n - 1
        self.vset(dest)

    def select(self, it):
        if len(self.sel) >= self.multi:
            return False
        if it in self.sel:
            return True
        self.sel.append(it)
        return True

    def toggle(self):
        c = self.cur()
        if self.multi and c is not None:
            if c in self.sel:
                self.sel.remove(c)
                return True
            return self.select(c)
        return False

    @staticmethod
    def bword(s, cx):  # start of the previous word
        i = cx
        while i > 0 and not isw(s[i - 1]):
            i -= 1
        while i > 0 and isw(s[i - 1]):
            i -= 1
        return i

    @staticmethod
    def fword(s, cx):  # end of the next word
        i = cx
        n = len(s)
        while i < n and not isw(s[i]):
            i += 1
        while i < n and isw(s[i]):
            i += 1
        return i

    def do(self, a):
        s = self.inp
        cx = self.cx
        m = re.match(r"(put|change-query|pos)\((.*)\)$", a)
        if m and m.group(1) == "put":
            t = list(m.group(2))
            self.inp = s[:cx] + t + s[cx:]
            self.cx += len(t)
        elif m and m.group(1) == "change-query":
            self.inp = list(m.group(2))
            self.cx = len(self.inp)
        elif m and m.group(1) == "pos":
            self.clamp()
            n = int(m.group(2))
            cnt = len(self.matches())
            n = n - 1 if n > 0 else n + cnt if n < 0 else n
            self.vset(n)
        elif a == "backward-char":
            self.cx = max(0, cx - 1)
        elif a == "forward-char":
            self.cx = min(len(s), cx + 1)
        elif a == "beginning-of-line":
            self.cx = 0
        elif a == "end-of-line":
            self.cx = len(s)
        elif a == "backward-delete-char":
            if cx > 0:
                self.inp = s[:cx - 1] + s[cx:]
                self.cx -= 1
        elif a == "delete-char":
            if cx < len(s):
                self.inp = s[:cx] + s[cx + 1:]
        elif a == "kill-line":
            if cx < len(s):
                self.yank = s[cx:]
                self.inp = s[:cx]
        elif a == "unix-line-discard":
            if cx > 0:
                self.yank = s[:cx]
                self.inp = s[cx:]
                self.cx = 0
        elif a == "unix-word-rubout":
            if cx > 0:
                i = cx
                while i > 0 and s[i - 1].isspace():
                    i -= 1
                while i > 0 and not s[i - 1].isspace():
                    i -= 1
                self.yank = s[i:cx]
                self.inp = s[:i] + s[cx:]
                self.cx = i
        elif a == "backward-kill-word":
            if cx > 0:
                i = self.bword(s, cx)
                self.yank = s[i:cx]
                self.inp = s[:i] + s[cx:]
                self.cx = i
        elif a == "kill-word":
            i = self.fword(s, cx)
            if i > cx:
                self.yank = s[cx:i]
                self.inp = s[:cx] + s[i:]
        elif a == "yank":
            self.inp = s[:cx] + self.yank + s[cx:]
            self.cx += len(self.yank)
        elif a == "backward-word":
            self.cx = self.bword(s, cx)
        elif a == "forward-word":
            self.cx = self.fword(s, cx)
        elif a == "clear-query":
            self.inp = []
            self.cx = 0
        elif a == "up":
            self.clamp()
            self.vmove(1)
        elif a == "down":
            self.clamp()
            self.vmove(-1)
        elif a in ("offset-up", "offset-down"):
            # only used when every result fits in the window: the view cannot scroll, so the cursor moves instead - without wrapping
            self.clamp()
            self.vmove(1 if a == "offset-up" else -1, allow_cycle=False)
        elif a == "first":
            self.cy = 0
        elif a == "last":
            self.vset(len(self.matches()) - 1)
        elif a in ("page-up", "page-down", "half-page-up", "half-page-down"):
            self.clamp()
            n = self.max_items - 1 if a.startswith("page") else self.max_items // 2
            n = max(1, n)
            d = 1 if a.endswith("up") else -1
            if self.reverse:
                d = -d
            self.vset(self.cy + d * n)
        elif a == "toggle":
            self.clamp()
            self.toggle()
        elif a in ("toggle-up", "toggle-down"):
            # the bindable actions are documented (and parsed) as toggle + up / toggle + down
            self.clamp()
            self.toggle()
            self.vmove(1 if a == "toggle-up" else -1)
        elif a in ("tab", "btab"):
            # the default Tab / Shift-Tab bindings: move only when the toggle took effect
            self.clamp()
            if self.toggle():
                self.vmove(1 if a == "btab" else -1)
        elif a == "select":
            self.clamp()
            c = self.cur()
            if self.multi and c is not None:
                self.select(c)
        elif a == "deselect":
            self.clamp()
            c = self.cur()
            if self.multi and c in self.sel:
                self.sel.remove(c)
        elif a == "select-all":
            if self.multi:
                for it in self.matches():
                    if not self.select(it):
                        break
        elif a == "deselect-all":
            if self.multi:
                for it in self.matches():
                    if it in self.sel:
                        self.sel.remove(it)
        elif a == "toggle-all":
            if self.multi:
                prev = [it for it in self.matches() if it in self.sel]
                for it in prev:
                    self.sel.remove(it)
                for it in self.matches():
                    if it not in prev:
                        if not self.select(it):
                            break
        elif a == "clear-selection":
            if self.multi:
                self.sel = []
        elif a == "cancel":
            # cancel clears a non-empty query (and aborts on an empty one - not issued on an empty query by the driver)
            self.inp = []
            self.cx = 0
        else:
            raise Exception("unknown action " + a)

    def obs(self):
        self.clamp()
        return {"query": "".join(self.inp), "cx": self.cx, "position": self.cy, "current": self.cur(),
                "selected": list(self.sel), "matches": self.matches()}

    def key(self):
        """canonical state for deduplication: everything that determines the model's futures"""
        self.clamp()
        return ("".join(self.inp), self.cx, "".join(self.yank), self.cy, tuple(self.sel))


# raw keys (default bindings) -> the action they are documented to trigger
KEYS = {
    "key:a": (b"a", "put(a)"), "key:b": (b"b", "put(b)"), "key:space": (b" ", "put( )"),
    "key:ctrl-a": (b"\x01", "beginning-of-line"), "key:ctrl-e": (b"\x05", "end-of-line"),
    "key:ctrl-b": (b"\x02", "backward-char"), "key:ctrl-f": (b"\x06", "forward-char"),
    "key:ctrl-h": (b"\x08", "backward-delete-char"), "key:bspace": (b"\x7f", "backward-delete-char"),
    "key:del": (b"\x1b[3~", "delete-char"),
    "key:ctrl-u": (b"\x15", "unix-line-discard"), "key:ctrl-w": (b"\x17", "unix-word-rubout"),
    "key:ctrl-y": (b"\x19", "yank"), "key:alt-b": (b"\x1bb", "backward-word"), "key:alt-f": (b"\x1bf", "forward-word"),
    "key:alt-d": (b"\x1bd", "kill-word"), "key:alt-bs": (b"\x1b\x7f", "backward-kill-word"),
    "key:ctrl-k": (b"\x0b", "up"), "key:ctrl-j": (b"\n", "down"), "key:ctrl-p": (b"\x10", "up"), "key:ctrl-n": (b"\x0e", "down"),
    "key:up": (b"\x1b[A", "up"), "key:down": (b"\x1b[B", "down"), "key:left": (b"\x1b[D", "backward-char"), "key:right": (b"\x1b[C", "forward-char"),
    "key:home": (b"\x1b[H", "beginning-of-line"), "key:end": (b"\x1b[F", "end-of-line"),
    "key:tab": (b"\t", "tab"), "key:btab": (b"\x1b[Z", "btab"),
    "key:pgup": (b"\x1b[5~", "page-up"), "key:pgdn": (b"\x1b[6~", "page-down"),
}

EDIT = ["put(a)", "put(b)", "put( )", "backward-char", "forward-char", "beginning-of-line", "end-of-line",
        "backward-delete-char", "delete-char", "kill-line", "unix-line-discard", "unix-word-rubout", "backward-kill-word",
        "kill-word", "yank", "backward-word", "forward-word", "clear-query", "change-query(a b)"]
NAV = ["up", "down", "first", "last", "pos(2)", "pos(-1)", "page-up", "page-down", "half-page-up", "half-page-down"]
NAV_FIT = ["offset-up", "offset-down"]  # modelled only when all results fit in the window
SEL = ["toggle", "toggle-up", "toggle-down", "select", "deselect", "select-all", "deselect-all", "toggle-all", "clear-selection"]
