"""Engine C: process-level driver for the real fzf binary.

The driver owns the keyboard (bytes on the pty master), the window size, stdin (what/when/EOF), the action channel
(POST to --listen) and the state probe (GET /), the screen (a small VT emulator for the repertoire tui/light.go emits),
child commands (gate scripts) and process hygiene (subreaper, termios, TMPDIR).

fzf is started with `--listen` on an OS-assigned port; the port is read from /proc (the listening socket inode of the
child), so there is never a connect before the listen and no port collisions between workers or concurrent checks.
"""
import ctypes
import fcntl
import http.client
import json
import os
import pty
import re
import select
import shutil
import signal
import struct
import subprocess
import tempfile
import termios
import time
import unicodedata

FZF = os.environ.get("FZF_BIN", "")
WORKROOT = os.environ.get("PTY_WORKROOT", "/verif/.work/pty")


def set_fzf(path, workroot=None):
    global FZF, WORKROOT
    FZF = path
    if workroot:
        WORKROOT = workroot
    os.makedirs(WORKROOT, exist_ok=True)


def become_subreaper():
    try:
        libc = ctypes.CDLL(None, use_errno=True)
        libc.prctl(36, 1, 0, 0, 0)  # PR_SET_CHILD_SUBREAPER
    except Exception:
        pass


def base_env(tmp, extra=None):
    e = {"TERM": "xterm-256color", "SHELL": "/bin/sh", "PATH": os.environ.get("PATH", "/usr/bin:/bin"),
         "HOME": tmp, "TMPDIR": tmp, "ESCDELAY": "10", "LANG": "C.UTF-8", "LC_ALL": "C.UTF-8"}
    if extra:
        e.update(extra)
    return e


class Screen:
    """Minimal emulator for the repertoire tui/light.go emits. Incomplete escape sequences are buffered by the caller."""

    CSI = re.compile(r"\x1b\[([?<=>]?)([0-9;:]*)([ -/]*)([@-~])")
    OSC = re.compile(r"\x1b\][^\x07\x1b]*(?:\x07|\x1b\\)")

    def __init__(self, rows, cols):
        self.rows, self.cols = rows, cols
        self.modes = set()
        self.overflow = 0
        self.unknown = []
        self.attr = ""
        self.reset()

    def reset(self):
        self.g = [[" "] * self.cols for _ in range(self.rows)]
        self.a = [[""] * self.cols for _ in range(self.rows)]
        self.y = self.x = 0
        self.saved = (0, 0)

    def resize(self, rows, cols):
        # keep the content that still fits (a terminal does), fzf repaints anyway
        old = self.g
        olda = self.a
        self.rows, self.cols = rows, cols
        self.g = [[" "] * cols for _ in range(rows)]
        self.a = [[""] * cols for _ in range(rows)]
        for y in range(min(rows, len(old))):
            for x in range(min(cols, len(old[y]))):
                self.g[y][x] = old[y][x]
                self.a[y][x] = olda[y][x]
        self.y = min(self.y, rows - 1)
        self.x = min(self.x, cols - 1)

    def text(self):
        return ["".join(r).rstrip() for r in self.g]

    def put(self, ch):
        w = 2 if unicodedata.east_asian_width(ch) in "WF" else (0 if unicodedata.combining(ch) or unicodedata.category(ch) in ("Mn", "Me", "Cf") else 1)
        if w == 0:
            return
        if self.x >= self.cols:
            self.overflow += 1
            if 7 in self.modes:  # autowrap
                self.x = 0
                self.y = min(self.rows - 1, self.y + 1)
            else:
                self.x = self.cols - 1
        if 0 <= self.y < self.rows:
            self.g[self.y][self.x] = ch
            self.a[self.y][self.x] = self.attr
            if w == 2 and self.x + 1 < self.cols:
                self.g[self.y][self.x + 1] = ""
        self.x += w

    def feed(self, s):
        """Consumes s; returns the unconsumed tail (an incomplete escape sequence)."""
        i = 0
        n = len(s)
        while i < n:
            c = s[i]
            if c == "\x1b":
                m = self.CSI.match(s, i)
                if m:
                    self.csi(m.group(1), m.group(2), m.group(4))
                    i = m.end()
                    continue
                m = self.OSC.match(s, i)
                if m:
                    i = m.end()
                    continue
                if i + 1 >= n:
                    return s[i:]
                nx = s[i + 1]
                if nx == "[" or nx == "]":
                    # incomplete CSI / OSC (or malformed): wait for more unless it is clearly broken
                    if n - i < 64:
                        return s[i:]
                    self.unknown.append(s[i:i + 8])
                    i += 2
                    continue
                if nx == "7":
                    self.saved = (self.y, self.x)
                elif nx == "8":
                    self.y, self.x = self.saved
                elif nx in "()":
                    if i + 2 >= n:
                        return s[i:]
                    i += 3
                    continue
                elif nx in "=>":
                    pass
                else:
                    self.unknown.append(s[i:i + 2])
                i += 2
                continue
            elif c == "\r":
                self.x = 0
            elif c == "\n":
                self.y = min(self.rows - 1, self.y + 1)
            elif c == "\x08":
                self.x = max(0, self.x - 1)
            elif c in "\x07\x0e\x0f\x00":
                pass
            else:
                self.put(c)
            i += 1
        return ""

    def csi(self, priv, args, final):
        nums = [int(a) if a else 0 for a in re.split("[;:]", args)] if args else []
        n = nums[0] if nums and nums[0] else 1
        if priv == "?":
            for v in nums:
                if final == "h":
                    self.modes.add(v)
                elif final == "l":
                    self.modes.discard(v)
                if v == 1049:
                    self.reset()
            return
        if priv:
            return
        if final == "A":
            self.y = max(0, self.y - n)
        elif final == "B":
            self.y = min(self.rows - 1, self.y + n)
        elif final == "C":
            self.x = min(self.cols - 1, self.x + n)
        elif final == "D":
            self.x = max(0, self.x - n)
        elif final == "G":
            self.x = min(self.cols - 1, max(0, n - 1))
        elif final == "d":
            self.y = min(self.rows - 1, max(0, n - 1))
        elif final in "Hf":
            self.y = min(self.rows - 1, (nums[0] - 1) if nums and nums[0] else 0)
            self.x = min(self.cols - 1, (nums[1] - 1) if len(nums) > 1 and nums[1] else 0)
        elif final == "K":
            mode = nums[0] if nums else 0
            lo, hi = (self.x, self.cols) if mode == 0 else ((0, self.x + 1) if mode == 1 else (0, self.cols))
            for x in range(lo, min(hi, self.cols)):
                self.g[self.y][x] = " "
                self.a[self.y][x] = ""
        elif final == "J":
            mode = nums[0] if nums else 0
            if mode == 0:
                for x in range(self.x, self.cols):
                    self.g[self.y][x] = " "
                    self.a[self.y][x] = ""
                for y in range(self.y + 1, self.rows):
                    self.g[y] = [" "] * self.cols
                    self.a[y] = [""] * self.cols
            elif mode in (2, 3):
                for y in range(self.rows):
                    self.g[y] = [" "] * self.cols
                    self.a[y] = [""] * self.cols
            elif mode == 1:
                for y in range(0, self.y):
                    self.g[y] = [" "] * self.cols
                    self.a[y] = [""] * self.cols
                for x in range(0, min(self.x + 1, self.cols)):
                    self.g[self.y][x] = " "
                    self.a[self.y][x] = ""
        elif final == "s":
            self.saved = (self.y, self.x)
        elif final == "u":
            self.y, self.x = self.saved
        elif final == "m":
            self.attr = args
            if args in ("", "0"):
                self.attr = ""
        elif final in "nhlrtcq":
            pass
        else:
            self.unknown.append("CSI" + args + final)


def _listening_port(pid):
    """TCP port the process listens on, or None (from /proc/<pid>/fd and /proc/<pid>/net/tcp)."""
    inodes = set()
    try:
        for fd in os.listdir("/proc/%d/fd" % pid):
            try:
                l = os.readlink("/proc/%d/fd/%s" % (pid, fd))
            except OSError:
                continue
            if l.startswith("socket:["):
                inodes.add(l[8:-1])
    except OSError:
        return None
    if not inodes:
        return None
    for f in ("/proc/%d/net/tcp" % pid, "/proc/%d/net/tcp6" % pid):
        try:
            rows = open(f).read().split("\n")[1:]
        except OSError:
            continue
        for row in rows:
            p = row.split()
            if len(p) > 9 and p[3] == "0A" and p[9] in inodes:
                return int(p[1].rsplit(":", 1)[1], 16)
    return None


class HookCtl:
    """Controller side of the build-tagged hook points (src/verif_on.go): fzf reports "<id> <name>" when a goroutine
    reaches a listed point and blocks until "<id>" is sent back. The driver thereby decides internal orderings."""

    def __init__(self, directory, points, auto=()):
        import socket
        self.path = os.path.join(directory, "hk")
        self.srv = socket.socket(socket.AF_UNIX)
        self.srv.bind(self.path)
        self.srv.listen(1)
        self.srv.setblocking(False)
        self.conn = None
        self.buf = b""
        self.points = list(points)
        self.auto = set(auto)       # names released as soon as they are seen
        self.parked = []            # [(id, name)] currently held
        self.log = []               # every point seen, in order

    def env(self):
        return {"FZF_VERIF_SOCK": self.path, "FZF_VERIF_POINTS": ",".join(self.points)}

    def service(self):
        if self.conn is None:
            try:
                self.conn, _ = self.srv.accept()
                self.conn.setblocking(False)
            except (BlockingIOError, OSError):
                return
        try:
            while True:
                d = self.conn.recv(65536)
                if not d:
                    break
                self.buf += d
        except (BlockingIOError, OSError):
            pass
        while b"\n" in self.buf:
            line, self.buf = self.buf.split(b"\n", 1)
            parts = line.decode().split()
            if len(parts) != 2:
                continue
            pid_, name = int(parts[0]), parts[1]
            self.log.append(name)
            if name in self.auto:
                self._send(pid_)
            else:
                self.parked.append((pid_, name))

    def _send(self, pid_):
        try:
            self.conn.sendall(b"%d\n" % pid_)
        except OSError:
            pass

    def held(self, name):
        return [i for i, n in self.parked if n == name]

    def release(self, name=None, ident=None):
        """release one parked point (oldest with that name); returns True if something was released"""
        for k, (i, n) in enumerate(self.parked):
            if (ident is not None and i == ident) or (ident is None and (name is None or n == name)):
                del self.parked[k]
                self._send(i)
                return True
        return False

    def release_all(self, auto_from_now=True):
        if auto_from_now:
            self.auto = set(self.points) | {"*"}
        while self.parked:
            i, _ = self.parked.pop(0)
            self._send(i)

    def close(self):
        for x in (self.conn, self.srv):
            try:
                if x is not None:
                    x.close()
            except OSError:
                pass


class Session:
    """One real fzf process under a fresh pty."""

    def __init__(self, args, lines=None, rows=12, cols=40, env=None, listen=True, stdin_data=None, keep_stdin=False,
                 binary=None, sep="\n", cwd=None, api_key=None, hook_points=None, hook_auto=(), job_control=False):
        os.makedirs(WORKROOT, exist_ok=True)
        self.tmp = tempfile.mkdtemp(prefix="s-", dir=WORKROOT)
        self.tmpdir = os.path.join(self.tmp, "tmp")
        os.mkdir(self.tmpdir)
        self.api_key = api_key
        rin, win = os.pipe()
        rout, wout = os.pipe()
        rerr, werr = os.pipe()
        argv = ["fzf"] + (["--listen"] if listen else []) + list(args)
        self.job_control = job_control
        e = base_env(self.tmpdir, env)
        e["HOME"] = self.tmp
        self.hooks = None
        if hook_points:
            self.hooks = HookCtl(self.tmp, hook_points, hook_auto)
            e.update(self.hooks.env())
        if api_key:
            e["FZF_API_KEY"] = api_key
        self.pid, self.master = pty.fork()
        if self.pid == 0:
            try:
                os.dup2(rin, 0)
                os.dup2(wout, 1)
                os.dup2(werr, 2)
                for fd in (win, rout, rerr, rin, wout, werr):
                    if fd > 2:
                        os.close(fd)
                os.chdir(cwd or self.tmp)
                if job_control:
                    _job_control_parent(os.path.join(self.tmp, "joblog"))
                os.execve(binary or FZF, argv, e)
            finally:
                os._exit(127)
        for fd in (rin, wout, werr):
            os.close(fd)
        fcntl.ioctl(self.master, termios.TIOCSWINSZ, struct.pack("HHHH", rows, cols, 0, 0))
        try:
            self.termios0 = termios.tcgetattr(self.master)
        except termios.error:
            self.termios0 = None
        self.win, self.rout, self.rerr = win, rout, rerr
        self.open_fds = [self.master, self.rout, self.rerr]
        self.screen = Screen(rows, cols)
        self.pending = ""
        self.raw = bytearray()
        self.stdout = b""
        self.stderr = b""
        self.exit = None
        self.port = None
        self.listen = listen
        self._dec = None
        import codecs
        self._dec = codecs.getincrementaldecoder("utf-8")("replace")
        if stdin_data is not None:
            self.feed_stdin(stdin_data)
            if not keep_stdin:
                self.close_stdin()
        elif lines is not None:
            self.feed_stdin("".join(l + sep for l in lines).encode())
            if not keep_stdin:
                self.close_stdin()

    # ---------------------------------------------------------------- stdin
    def feed_stdin(self, data):
        if isinstance(data, str):
            data = data.encode()
        off = 0
        while off < len(data):
            _, w, _ = select.select([], [self.win], [], 5)
            if not w:
                self.pump(0.01)
                continue
            off += os.write(self.win, data[off:off + 65536])
            self.pump(0)

    def close_stdin(self):
        if self.win is not None:
            os.close(self.win)
            self.win = None

    # ---------------------------------------------------------------- pty
    def keys(self, data):
        if isinstance(data, str):
            data = data.encode()
        os.write(self.master, data)

    def resize(self, rows, cols):
        fcntl.ioctl(self.master, termios.TIOCSWINSZ, struct.pack("HHHH", rows, cols, 0, 0))
        self.screen.resize(rows, cols)
        try:
            os.kill(self.pid, signal.SIGWINCH)
        except ProcessLookupError:
            pass

    def pump(self, timeout=0.02):
        got = False
        if self.hooks is not None:
            self.hooks.service()
        while self.open_fds:
            try:
                r, _, _ = select.select(self.open_fds, [], [], timeout)
            except (OSError, ValueError):
                break
            if not r:
                return got
            for fd in r:
                try:
                    d = os.read(fd, 65536)
                except OSError:
                    d = b""
                if not d:
                    if fd == self.master and self.exit is None and self._child_running():
                        # EIO while no process has the slave open (before fzf opens /dev/tty): not an EOF
                        time.sleep(0.002)
                        continue
                    self.open_fds.remove(fd)  # EOF on this stream only; keep draining the others
                    continue
                got = True
                if fd == self.master:
                    self.raw += d
                    if len(self.raw) > 400000:
                        del self.raw[:200000]
                    txt = self.pending + self._dec.decode(d)
                    if "\x1b[6n" in txt:
                        try:
                            os.write(self.master, b"\x1b[%d;%dR" % (self.screen.y + 1, self.screen.x + 1))
                        except OSError:
                            pass
                    self.pending = self.screen.feed(txt)
                elif fd == self.rout:
                    self.stdout += d
                else:
                    self.stderr += d
            timeout = 0.005
        return got

    def settle_screen(self, quiet=0.05, limit=3.0):
        t0 = time.time()
        while self.pump(quiet) and time.time() - t0 < limit:
            pass
        return self.screen.text()

    # ---------------------------------------------------------------- http
    def find_port(self, deadline=10.0):
        t0 = time.time()
        while time.time() - t0 < deadline:
            p = _listening_port(self.pid)
            if not p and self.job_control:
                for child in descendants(self.pid):
                    p = _listening_port(child)
                    if p:
                        break
            if p:
                self.port = p
                return p
            self.pump(0.005)
            if not self.alive():
                return None
        return None

    def http(self, method, body=None, headers=None, path="/", deadline=6.0):
        if self.port is None and self.find_port() is None:
            raise ConnectionError("fzf is not listening")
        h = dict(headers or {})
        if self.api_key and "x-api-key" not in {k.lower() for k in h}:
            h["x-api-key"] = self.api_key
        last = None
        t0 = time.time()
        while time.time() - t0 < deadline:
            try:
                c = http.client.HTTPConnection("127.0.0.1", self.port, timeout=15)
                c.request(method, path, body=body, headers=h)
                r = c.getresponse()
                d = r.read()
                c.close()
                return r.status, d
            except (ConnectionRefusedError, ConnectionResetError, http.client.BadStatusLine,
                    http.client.RemoteDisconnected, BrokenPipeError, TimeoutError, OSError) as e:
                last = e
                self.pump(0.01)
                if not self.alive():
                    break
        raise ConnectionError(repr(last))

    def get(self, path="/?limit=1000"):
        st, d = self.http("GET", path=path)
        if st != 200:
            return None
        return json.loads(d)

    def post(self, body):
        try:
            return self.http("POST", body.encode() if isinstance(body, str) else body)[0]
        except ConnectionError:
            return None  # a POST that terminates fzf may lose its response

    def wait_state(self, pred, deadline=10.0):
        t0 = time.time()
        last = None
        while time.time() - t0 < deadline:
            try:
                last = self.get()
            except ConnectionError:
                last = None
                if not self.alive():
                    return None, False
            if last is not None and pred(last):
                return last, True
            self.pump(0.01)
        return last, False

    def wait_loaded(self, total, deadline=10.0):
        return self.wait_state(lambda x: x["totalCount"] == total and not x["reading"] and x.get("progress", 100) == 100, deadline)

    # ---------------------------------------------------------------- lifetime
    def _child_running(self):
        try:
            st = open("/proc/%d/stat" % self.pid).read()
            return st[st.rfind(")") + 2] not in "ZX"
        except OSError:
            return False

    def alive(self):
        if self.exit is not None:
            return False
        try:
            p, st = os.waitpid(self.pid, os.WNOHANG)
        except ChildProcessError:
            self.exit = -1
            return False
        if p:
            self.exit = st
            return False
        return True

    def job_stops(self):
        """how many times the job was seen stopped by the job-control parent"""
        try:
            return len(open(os.path.join(self.tmp, "joblog")).read().splitlines())
        except OSError:
            return 0

    def job_pid(self):
        """the pid of fzf itself: under job control self.pid is the minimal shell and fzf is its only child"""
        if not self.job_control:
            return self.pid
        for p in descendants(self.pid):
            try:
                st = open("/proc/%d/stat" % p).read()
                if int(st[st.rfind(")") + 2:].split()[1]) == self.pid:
                    return p
            except (OSError, ValueError):
                pass
        return None

    def signal(self, sig):
        try:
            p = self.job_pid()
            if p:
                os.kill(p, sig)
        except ProcessLookupError:
            pass

    def exit_code(self):
        if self.exit is None:
            return None
        if self.exit == -1:
            return None
        return os.WEXITSTATUS(self.exit) if os.WIFEXITED(self.exit) else -os.WTERMSIG(self.exit)

    def wait_exit(self, deadline=10.0):
        t0 = time.time()
        while time.time() - t0 < deadline:
            self.pump(0.01)
            if not self.alive():
                for _ in range(100):
                    self.pump(0.01)
                    if self.rout not in self.open_fds and self.rerr not in self.open_fds:
                        break
                return self.exit_code()
        return None

    def termios_now(self):
        try:
            return termios.tcgetattr(self.master)
        except termios.error:
            return None

    def leftover_tmp(self):
        try:
            return sorted(os.listdir(self.tmpdir))
        except OSError:
            return []

    def close(self, kill=True):
        if self.alive() and kill:
            try:
                os.kill(self.pid, signal.SIGKILL)
            except ProcessLookupError:
                pass
        if self.exit is None:
            try:
                _, self.exit = os.waitpid(self.pid, 0)
            except ChildProcessError:
                self.exit = -1
        try:
            self.pump(0.01)
        except Exception:
            pass
        for fd in (self.master, self.rout, self.rerr, self.win):
            if fd is not None:
                try:
                    os.close(fd)
                except OSError:
                    pass
        self.win = None
        if self.hooks is not None:
            self.hooks.close()
        shutil.rmtree(self.tmp, ignore_errors=True)


def _job_control_parent(logpath):
    """Runs in the pty child (a session leader whose controlling terminal is the slave): the minimum of a job-control shell.
    fzf becomes a foreground job in its own process group with its parent in the same session - only then does CTRL-Z
    (fzf sends SIGTSTP to its own group) stop it: a process group whose only parent link leaves the session is orphaned and
    the kernel discards the signal.  When the job stops, the 'shell' takes the terminal, gives it back and continues the job
    (what `fg` does).  Returns in the grandchild (which then execs fzf); never returns in the shell."""
    for sg in (signal.SIGTTOU, signal.SIGTTIN, signal.SIGTSTP):
        signal.signal(sg, signal.SIG_IGN)
    tty = os.open("/dev/tty", os.O_RDWR)
    gc = os.fork()
    if gc == 0:
        os.setpgid(0, 0)
        os.tcsetpgrp(tty, os.getpid())
        os.close(tty)
        for sg in (signal.SIGTTOU, signal.SIGTTIN, signal.SIGTSTP):
            signal.signal(sg, signal.SIG_DFL)
        return
    try:
        try:
            os.setpgid(gc, gc)
        except OSError:
            pass
        try:
            os.tcsetpgrp(tty, gc)
        except OSError:
            pass
        for fd in (0, 1, 2):
            os.close(fd)
        while True:
            _, st = os.waitpid(gc, os.WUNTRACED)
            if os.WIFSTOPPED(st):
                with open(logpath, "a") as f:
                    f.write("stopped %d\n" % os.WSTOPSIG(st))
                os.tcsetpgrp(tty, os.getpgrp())
                time.sleep(0.1)
                os.tcsetpgrp(tty, gc)
                os.kill(-gc, signal.SIGCONT)
                continue
            if os.WIFEXITED(st):
                os._exit(os.WEXITSTATUS(st))
            os._exit(128 + os.WTERMSIG(st))
    finally:
        os._exit(126)


def descendants(root_pid):
    """pids of all live processes whose ancestor chain reaches root_pid (root itself excluded)."""
    parent = {}
    for d in os.listdir("/proc"):
        if not d.isdigit():
            continue
        try:
            st = open("/proc/%s/stat" % d).read()
        except OSError:
            continue
        rp = st.rfind(")")
        f = st[rp + 2:].split()
        if f[0] == "Z":
            continue
        parent[int(d)] = int(f[1])
    out = []
    for p in parent:
        q = p
        seen = 0
        while q in parent and q != root_pid and seen < 64:
            q = parent[q]
            seen += 1
        if q == root_pid and p != root_pid:
            out.append(p)
    return out


def cmdline(pid):
    try:
        return open("/proc/%d/cmdline" % pid, "rb").read().replace(b"\0", b" ").decode("utf-8", "replace").strip()
    except OSError:
        return ""


_filter_cache = {}


def fzf_filter(lines, query, extra=(), binary=None, sep="\n", cache=True):
    """fzf --filter over lines: (stdout records, exit status). The reference for C08/C09 'matches'."""
    key = (tuple(lines), query, tuple(extra), sep)
    if cache and key in _filter_cache:
        return _filter_cache[key]
    tmp = tempfile.mkdtemp(prefix="f-", dir=WORKROOT)
    try:
        p = subprocess.run([binary or FZF, "-f", query] + list(extra), input="".join(l + sep for l in lines).encode(),
                           capture_output=True, env=base_env(tmp), cwd=tmp)
    finally:
        shutil.rmtree(tmp, ignore_errors=True)
    out = p.stdout.decode("utf-8", "replace").split("\n")[:-1]
    res = (out, p.returncode)
    if cache:
        _filter_cache[key] = res
    return res


def run_filter(args, data, binary=None, env=None, timeout=60):
    """One non-interactive fzf run: (exit status, stdout bytes, stderr bytes)."""
    tmp = tempfile.mkdtemp(prefix="f-", dir=WORKROOT)
    try:
        p = subprocess.run([binary or FZF] + list(args), input=data, capture_output=True, env=base_env(tmp, env), cwd=tmp, timeout=timeout)
        return p.returncode, p.stdout, p.stderr
    finally:
        shutil.rmtree(tmp, ignore_errors=True)
