// rewrite: prototype source rewriter. usage: rewrite <in.go> <out.go>
package main

import (
	"bytes"
	"fmt"
	"go/ast"
	"go/format"
	"go/parser"
	"go/token"
	"os"
	"strconv"
	"strings"

	"golang.org/x/tools/go/ast/astutil"
)

const shim = "github.com/junegunn/fzf/src/util/vsched"

func call(fn string, args ...ast.Expr) *ast.CallExpr {
	return &ast.CallExpr{Fun: &ast.SelectorExpr{X: ast.NewIdent("vsched"), Sel: ast.NewIdent(fn)}, Args: args}
}

// names known to be channels in this file: `x := make(chan ...)`, fields, parameters and variables of channel type
var chanNames = map[string]bool{}

func collectChans(f *ast.File) {
	ast.Inspect(f, func(n ast.Node) bool {
		switch x := n.(type) {
		case *ast.Field:
			if _, ok := x.Type.(*ast.ChanType); ok {
				for _, nm := range x.Names {
					chanNames[nm.Name] = true
				}
			}
		case *ast.ValueSpec:
			if _, ok := x.Type.(*ast.ChanType); ok {
				for _, nm := range x.Names {
					chanNames[nm.Name] = true
				}
			}
		case *ast.AssignStmt:
			for i, r := range x.Rhs {
				if c, ok := r.(*ast.CallExpr); ok && i < len(x.Lhs) {
					if id, ok := c.Fun.(*ast.Ident); ok && id.Name == "make" && len(c.Args) > 0 {
						if _, ok := c.Args[0].(*ast.ChanType); ok {
							if l, ok := x.Lhs[i].(*ast.Ident); ok {
								chanNames[l.Name] = true
							}
						}
					}
				}
			}
		}
		return true
	})
}

func isChanName(e ast.Expr) bool {
	switch x := e.(type) {
	case *ast.Ident:
		return chanNames[x.Name] || strings.HasSuffix(x.Name, "Chan")
	case *ast.SelectorExpr:
		return chanNames[x.Sel.Name] || strings.HasSuffix(x.Sel.Name, "Chan")
	}
	return false
}

func main() {
	fset := token.NewFileSet()
	f, err := parser.ParseFile(fset, os.Args[1], nil, parser.ParseComments)
	if err != nil {
		panic(err)
	}
	used := false
	n := 0
	collectChans(f)
	// imports
	for _, imp := range f.Imports {
		p, _ := strconv.Unquote(imp.Path.Value)
		switch p {
		case "sync":
			imp.Name = ast.NewIdent("sync")
			imp.Path.Value = strconv.Quote(shim)
		case "sync/atomic":
			imp.Name = ast.NewIdent("atomic")
			imp.Path.Value = strconv.Quote(shim)
		case "time":
			imp.Name = ast.NewIdent("time")
			imp.Path.Value = strconv.Quote(shim)
		}
	}
	astutil.Apply(f, func(c *astutil.Cursor) bool {
		switch s := c.Node().(type) {
		case *ast.SelectStmt:
			// fail closed: select is not modelled by the shims
			fmt.Fprintf(os.Stderr, "CANNOT-INSTRUMENT %s: select statement at %s\n", os.Args[1], fset.Position(s.Pos()))
			os.Exit(4)
		case *ast.GoStmt:
			used = true
			n++
			var stmts []ast.Stmt
			var args []ast.Expr
			for i, a := range s.Call.Args {
				id := ast.NewIdent(fmt.Sprintf("__a%d_%d", n, i))
				stmts = append(stmts, &ast.AssignStmt{Lhs: []ast.Expr{id}, Tok: token.DEFINE, Rhs: []ast.Expr{a}})
				args = append(args, id)
			}
			fn := s.Call.Fun
			if _, lit := fn.(*ast.FuncLit); lit {
				id := ast.NewIdent(fmt.Sprintf("__f%d", n))
				stmts = append(stmts, &ast.AssignStmt{Lhs: []ast.Expr{id}, Tok: token.DEFINE, Rhs: []ast.Expr{fn}})
				fn = id
			}
			inner := &ast.FuncLit{Type: &ast.FuncType{Params: &ast.FieldList{}}, Body: &ast.BlockStmt{List: []ast.Stmt{
				&ast.ExprStmt{X: &ast.CallExpr{Fun: fn, Args: args}}}}}
			stmts = append(stmts, &ast.ExprStmt{X: call("Go", inner)})
			c.Replace(&ast.BlockStmt{List: stmts})
		case *ast.SendStmt:
			used = true
			c.Replace(&ast.ExprStmt{X: call("Send", s.Chan, s.Value)})
		case *ast.AssignStmt:
			if len(s.Lhs) == 2 && len(s.Rhs) == 1 {
				if u, ok := s.Rhs[0].(*ast.UnaryExpr); ok && u.Op == token.ARROW {
					used = true
					s.Rhs[0] = call("Recv2", u.X)
				}
			}
		case *ast.UnaryExpr:
			if s.Op == token.ARROW {
				used = true
				c.Replace(call("Recv", s.X))
			}
		case *ast.RangeStmt:
			if isChanName(s.X) {
				used = true
				key := s.Key
				if key == nil {
					key = ast.NewIdent("_")
				}
				ok := ast.NewIdent("__ok")
				body := append([]ast.Stmt{
					&ast.AssignStmt{Lhs: []ast.Expr{key, ok}, Tok: token.DEFINE, Rhs: []ast.Expr{call("Recv2", s.X)}},
					&ast.IfStmt{Cond: &ast.UnaryExpr{Op: token.NOT, X: ok}, Body: &ast.BlockStmt{List: []ast.Stmt{&ast.BranchStmt{Tok: token.BREAK}}}},
				}, s.Body.List...)
				c.Replace(&ast.ForStmt{Body: &ast.BlockStmt{List: body}})
			} else if st, ok := s.X.(*ast.StarExpr); ok {
				if id, ok := st.X.(*ast.Ident); ok && id.Name == "events" && s.Key != nil && s.Tok == token.DEFINE {
					used = true
					k := ast.NewIdent("__k")
					lhs := []ast.Expr{s.Key}
					rhs := []ast.Expr{k}
					if s.Value != nil {
						lhs = append(lhs, s.Value)
						rhs = append(rhs, &ast.IndexExpr{X: &ast.ParenExpr{X: s.X}, Index: k})
					}
					body := append([]ast.Stmt{&ast.AssignStmt{Lhs: lhs, Tok: token.DEFINE, Rhs: rhs}}, s.Body.List...)
					c.Replace(&ast.RangeStmt{Key: ast.NewIdent("_"), Value: k, Tok: token.DEFINE, X: call("MapKeys", s.X), Body: &ast.BlockStmt{List: body}})
				}
			}
		}
		return true
	}, nil)
	if used {
		astutil.AddNamedImport(fset, f, "vsched", shim)
	}
	var buf bytes.Buffer
	if err := format.Node(&buf, fset, f); err != nil {
		panic(err)
	}
	if err := os.WriteFile(os.Args[2], buf.Bytes(), 0644); err != nil {
		panic(err)
	}
}
