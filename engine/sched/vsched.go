// Package vsched: cooperative scheduler + sync / sync/atomic / time / channel shims + a stateless DFS explorer
// with a deviation bound. It is injected into the module under test as the virtual package src/util/vsched
// (go build -overlay); rewritten copies of the repository's concurrent files import it instead of sync,
// sync/atomic and time. When no exploration is active (S == nil) every shim delegates to the real primitive.
package vsched

import (
	"cmp"
	"fmt"
	"reflect"
	"slices"
	rsync "sync"
	ratomic "sync/atomic"
	"time"
)

// ---------- scheduler core ----------

type thread struct {
	id       int
	wake     chan struct{}
	done     bool
	idleOnly bool        // runnable only when nothing else is
	sleeping bool        // yielded in a poll loop: never the default choice
	canRun   func() bool // nil => runnable
}

type Point struct {
	Enabled    int  // number of enabled options
	CurEnabled bool // option 0 is "continue current thread"
	Kind       string
	Costs      []int // deviation cost of each option
}

type Sched struct {
	threads []*thread
	cur     *thread
	prefix  []int
	Choices []int
	Points  []Point
	Ops     int
	sleeps  int
	fin     chan struct{}
	err     any
	mu      rsync.Mutex
}

var S *Sched // nil => passthrough to real primitives

type Deadlock struct{ Msg string }

func (s *Sched) enabled() []*thread {
	var out, sleepers []*thread
	add := func(t *thread) {
		if t.done || !(t.canRun == nil || t.canRun()) {
			return
		}
		if t.sleeping {
			sleepers = append(sleepers, t)
		} else {
			out = append(out, t)
		}
	}
	if s.cur != nil {
		add(s.cur)
	}
	for _, t := range s.threads {
		if t != s.cur {
			add(t)
		}
	}
	// idle-only threads run only when nobody else can
	var busy []*thread
	for _, t := range out {
		if !t.idleOnly {
			busy = append(busy, t)
		}
	}
	if len(busy) > 0 {
		out = busy
	} else if len(sleepers) > 0 {
		// only idle-only threads and sleepers: sleepers first
		out = append(sleepers, out...)
		return out
	}
	return append(out, sleepers...)
}

// WaitQuiescent parks the caller until no other thread is enabled.
func WaitQuiescent() {
	if S == nil {
		return
	}
	t := S.cur
	t.idleOnly = true
	t.canRun = nil
	S.yield("quiesce")
	t.idleOnly = false
}

// MapKeys returns the keys of m in an order chosen by the explorer (sorted when not exploring).
func MapKeys[M ~map[K]V, K cmp.Ordered, V any](m M) []K {
	keys := make([]K, 0, len(m))
	for k := range m {
		keys = append(keys, k)
	}
	slices.Sort(keys)
	n := len(keys)
	// choose a permutation by successive selection
	for i := 0; i < n-1; i++ {
		j := i + Choice(n-i, "maporder")
		keys[i], keys[j] = keys[j], keys[i]
	}
	return keys
}

func (s *Sched) costs(en []*thread, curEnabled bool) []int {
	nonSleep := false
	for _, t := range en {
		if !t.sleeping {
			nonSleep = true
		}
	}
	c := make([]int, len(en))
	for i, t := range en {
		switch {
		case i == 0:
			c[i] = 0
		case t.sleeping && nonSleep:
			c[i] = 1 // waking a sleeper early is a deviation
		case curEnabled:
			c[i] = 1 // preemption
		}
	}
	return c
}

func (s *Sched) chooseT(en []*thread, curEnabled bool, kind string) int {
	c := s.choose(len(en), curEnabled, kind)
	s.Points[len(s.Points)-1].Costs = s.costs(en, curEnabled)
	return c
}

func (s *Sched) choose(n int, curEnabled bool, kind string) int {
	pos := len(s.Choices)
	c := 0
	if pos < len(s.prefix) {
		c = s.prefix[pos]
		if c >= n {
			panic(fmt.Sprintf("vsched: replay divergence at %d: choice %d of %d (%s)", pos, c, n, kind))
		}
	}
	s.Choices = append(s.Choices, c)
	s.Points = append(s.Points, Point{Enabled: n, CurEnabled: curEnabled, Kind: kind})
	return c
}

// yield is a scheduling point. The calling thread must have set its canRun.
func (s *Sched) yield(kind string) {
	s.Ops++
	me := s.cur
	en := s.enabled()
	if len(en) == 0 {
		s.deadlock()
		return
	}
	curEnabled := en[0] == me && !me.sleeping
	var next *thread
	if len(en) == 1 {
		next = en[0]
	} else {
		next = en[s.chooseT(en, curEnabled, kind)]
	}
	if next == me {
		return
	}
	s.cur = next
	next.wake <- struct{}{}
	if !me.done {
		<-me.wake
	}
}

func (s *Sched) deadlock() {
	all := true
	for _, t := range s.threads {
		if !t.done {
			all = false
		}
	}
	if all {
		close(s.fin)
		return
	}
	s.err = Deadlock{"no enabled thread"}
	close(s.fin)
	// park forever
	select {}
}

// Yield is an explicit scheduling point (used by harness wrappers to make "inside this call" interruptible).
func Yield(kind string) {
	if S == nil {
		return
	}
	block("yield:"+kind, nil)
}

// Choice is a pure data choice point (e.g. map iteration order).
func Choice(n int, kind string) int {
	if S == nil || n <= 1 {
		return 0
	}
	return S.choose(n, false, "choice:"+kind)
}

// Go starts a controlled goroutine.
func Go(f func()) {
	if S == nil {
		go f()
		return
	}
	s := S
	t := &thread{id: len(s.threads), wake: make(chan struct{})}
	s.threads = append(s.threads, t)
	go func() {
		<-t.wake
		defer func() {
			if r := recover(); r != nil {
				s.err = r
				close(s.fin)
				select {}
			}
			t.done = true
			s.cur = t
			en := s.enabled()
			if len(en) == 0 {
				s.deadlock()
				return
			}
			var next *thread
			if len(en) == 1 {
				next = en[0]
			} else {
				next = en[s.chooseT(en, false, "exit")]
			}
			s.cur = next
			next.wake <- struct{}{}
		}()
		f()
	}()
	s.cur.canRun = nil
	s.yield("go")
}

// Run executes body under a fresh scheduler following prefix; returns the scheduler (trace) and error.
func Run(prefix []int, body func()) (s *Sched, err any) {
	s = &Sched{prefix: prefix, fin: make(chan struct{})}
	closed = map[uintptr]bool{}
	S = s
	main := &thread{id: 0, wake: make(chan struct{})}
	s.threads = append(s.threads, main)
	s.cur = main
	go func() {
		defer func() {
			if r := recover(); r != nil {
				s.err = r
				close(s.fin)
				select {}
			}
			main.done = true
			en := s.enabled()
			if len(en) == 0 {
				s.deadlock()
				return
			}
			var next *thread
			if len(en) == 1 {
				next = en[0]
			} else {
				next = en[s.chooseT(en, false, "exit")]
			}
			s.cur = next
			next.wake <- struct{}{}
		}()
		body()
	}()
	<-s.fin
	S = nil
	return s, s.err
}

func block(kind string, pred func() bool) {
	s := S
	if kind != "sleep" {
		s.sleeps = 0
	}
	t := s.cur
	t.canRun = pred
	s.yield(kind)
	t.canRun = nil
}

// ---------- sync shims ----------

type Locker = rsync.Locker

type Mutex struct {
	real rsync.Mutex
	held bool
}

func (m *Mutex) Lock() {
	if S == nil {
		m.real.Lock()
		return
	}
	block("lock", func() bool { return !m.held })
	m.held = true
}
func (m *Mutex) TryLock() bool {
	if S == nil {
		return m.real.TryLock()
	}
	block("trylock", nil)
	if m.held {
		return false
	}
	m.held = true
	return true
}
func (m *Mutex) Unlock() {
	if S == nil {
		m.real.Unlock()
		return
	}
	m.held = false
	block("unlock", nil)
}

type waiter struct{ signaled bool }
type Cond struct {
	L       Locker
	real    *rsync.Cond
	waiters []*waiter
}

func NewCond(l Locker) *Cond { return &Cond{L: l, real: rsync.NewCond(l)} }
func (c *Cond) Wait() {
	if S == nil {
		c.real.Wait()
		return
	}
	m := c.L.(*Mutex)
	m.held = false
	w := &waiter{}
	c.waiters = append(c.waiters, w)
	block("condwait", func() bool { return w.signaled })
	c.L.Lock()
}
func (c *Cond) Broadcast() {
	if S == nil {
		c.real.Broadcast()
		return
	}
	block("broadcast", nil)
	for _, w := range c.waiters {
		w.signaled = true
	}
	c.waiters = nil
}
func (c *Cond) Signal() {
	if S == nil {
		c.real.Signal()
		return
	}
	block("signal", nil)
	if len(c.waiters) > 0 {
		c.waiters[0].signaled = true
		c.waiters = c.waiters[1:]
	}
}

type WaitGroup struct {
	real rsync.WaitGroup
	n    int
}

func (w *WaitGroup) Add(d int) {
	if S == nil {
		w.real.Add(d)
		return
	}
	w.n += d
}
func (w *WaitGroup) Done() {
	if S == nil {
		w.real.Done()
		return
	}
	block("wgdone", nil)
	w.n--
}
func (w *WaitGroup) Wait() {
	if S == nil {
		w.real.Wait()
		return
	}
	block("wgwait", func() bool { return w.n == 0 })
}

// ---------- atomic shims ----------

func LoadInt32(p *int32) int32 {
	if S != nil {
		block("aload", nil)
	}
	return ratomic.LoadInt32(p)
}
func StoreInt32(p *int32, v int32) {
	if S != nil {
		block("astore", nil)
	}
	ratomic.StoreInt32(p, v)
}
func CompareAndSwapInt32(p *int32, o, n int32) bool {
	if S != nil {
		block("acas", nil)
	}
	return ratomic.CompareAndSwapInt32(p, o, n)
}

// ---------- time shims ----------

type Duration = time.Duration
type Time = time.Time

const (
	Millisecond = time.Millisecond
	Second      = time.Second
)

var epoch = time.Unix(1000000, 0)

func Now() Time {
	if S == nil {
		return time.Now()
	}
	return epoch
}
func Since(t Time) Duration {
	if S == nil {
		return time.Since(t)
	}
	return 0
}
func Sleep(d Duration) {
	if S == nil {
		time.Sleep(d)
		return
	}
	// A sleeper yields: it is never the default choice while anything else can run.
	t := S.cur
	S.sleeps++
	if S.sleeps > 200 {
		panic("vsched: livelock (200 consecutive sleeps)")
	}
	t.sleeping = true
	block("sleep", nil)
	t.sleeping = false
}

// ---------- channel shims (buffered channels only in this prototype) ----------

var closed = map[uintptr]bool{}

func chid(ch any) uintptr { return reflect.ValueOf(ch).Pointer() }

func Send[T any](ch chan T, v T) {
	if S == nil {
		ch <- v
		return
	}
	if cap(ch) == 0 {
		panic("vsched: cannot instrument: unbuffered channel")
	}
	block("send", func() bool { return len(ch) < cap(ch) })
	ch <- v
}
func Recv[T any](ch chan T) T {
	v, _ := Recv2(ch)
	return v
}
func Recv2[T any](ch chan T) (T, bool) {
	if S == nil {
		v, ok := <-ch
		return v, ok
	}
	id := chid(ch)
	block("recv", func() bool { return len(ch) > 0 || closed[id] })
	v, ok := <-ch
	return v, ok
}
func Close[T any](ch chan T) {
	if S != nil {
		block("close", nil)
		closed[chid(ch)] = true
	}
	close(ch)
}

// ---------- explorer ----------

// Stats describes one exploration (all executions with at most `Bound` deviations).
type Stats struct {
	Bound       int
	Execs       int            // executions owned (counted) by this shard
	Ran         int            // executions actually run by this shard (incl. shared shallow ones)
	ByCost      []int          // owned executions by number of deviations
	Points      int64          // scheduling points over owned executions
	MaxPoints   int
	Outcomes    map[string]int // distinct observed outcomes (owned executions)
	Bad         []BadExec
	BadCount    int
	Capped      string // non-empty when a cap cut the exploration short
	Ops         int64
}

type BadExec struct {
	Msg      string
	Outcome  string
	Schedule []int
	Cost     int
}

type Options struct {
	Shard, NShards int
	MaxExecs       int           // per shard; 0 = unlimited
	Deadline       time.Time     // zero = none
	MaxBad         int           // stop after this many violations (default 3)
}

func hashPrefix(p []int) uint32 {
	h := uint32(2166136261)
	for _, v := range p {
		h ^= uint32(v) + 1
		h *= 16777619
	}
	return h
}

// Explore runs body under every schedule with at most bound deviations (preemptions, early timer wake-ups;
// data choices such as map order are free). check(outcome) returns "" or a violation message.
// Executions with fewer than 2 deviations are run by every shard (they are needed to enumerate the
// alternatives) but owned by one; deeper subtrees are run only by their owner.
func Explore(bound int, body func() string, check func(string) string, o Options) *Stats {
	if o.NShards <= 0 {
		o.NShards = 1
	}
	if o.MaxBad == 0 {
		o.MaxBad = 3
	}
	st := &Stats{Bound: bound, Outcomes: map[string]int{}, ByCost: make([]int, bound+1)}
	// determinism: the default schedule replayed twice must give identical observations
	{
		var o1, o2 string
		s1, e1 := Run(nil, func() { o1 = body() })
		s2, e2 := Run(append([]int{}, s1.Choices...), func() { o2 = body() })
		if fmt.Sprint(e1) != fmt.Sprint(e2) || o1 != o2 || fmt.Sprint(s1.Choices) != fmt.Sprint(s2.Choices) {
			panic(fmt.Sprintf("vsched: nondeterministic scenario: %q/%v vs %q/%v", o1, e1, o2, e2))
		}
	}
	var rec func(prefix []int, cost int)
	rec = func(prefix []int, cost int) {
		if st.Capped != "" || st.BadCount >= o.MaxBad {
			return
		}
		if o.MaxExecs > 0 && st.Ran >= o.MaxExecs {
			st.Capped = fmt.Sprintf("execution cap %d", o.MaxExecs)
			return
		}
		if !o.Deadline.IsZero() && st.Ran&63 == 0 && time.Now().After(o.Deadline) {
			st.Capped = "time"
			return
		}
		owner := int(hashPrefix(prefix) % uint32(o.NShards))
		mine := owner == o.Shard
		if cost >= 2 && !mine {
			return
		}
		var out string
		s, err := Run(prefix, func() { out = body() })
		st.Ran++
		if err != nil {
			out = fmt.Sprintf("ERROR:%v", err)
		}
		if mine {
			st.Execs++
			st.ByCost[cost]++
			st.Points += int64(len(s.Points))
			st.Ops += int64(s.Ops)
			if len(s.Points) > st.MaxPoints {
				st.MaxPoints = len(s.Points)
			}
			st.Outcomes[out]++
			if msg := check(out); msg != "" {
				st.BadCount++
				if len(st.Bad) < 3 {
					st.Bad = append(st.Bad, BadExec{msg, out, append([]int{}, s.Choices...), cost})
				}
			}
		}
		if err != nil {
			return // an aborted execution has no reliable continuation points
		}
		// keep only the trace: the scheduler object references every thread closure of the execution
		points, choices := s.Points, s.Choices
		s = nil
		c := 0
		for j := 0; j < len(prefix); j++ {
			if cs := points[j].Costs; cs != nil {
				c += cs[choices[j]]
			}
		}
		for i := len(prefix); i < len(points); i++ {
			p := points[i]
			for alt := 1; alt < p.Enabled; alt++ {
				cc := c
				if p.Costs != nil {
					cc += p.Costs[alt]
				}
				if cc > bound {
					continue
				}
				np := append(append(make([]int, 0, i+1), choices[:i]...), alt)
				rec(np, cc)
			}
			// choices[i] on the explored path is 0 beyond the prefix: cost of the default is 0
		}
	}
	rec(nil, 0)
	return st
}

// Replay runs one recorded schedule and returns the outcome.
func Replay(schedule []int, body func() string) (string, any) {
	var out string
	_, err := Run(schedule, func() { out = body() })
	return out, err
}
