// Package verifkit is injected into the module under test as a virtual package
// (go build -overlay); it is the shard/result plumbing shared by every in-package harness.
package verifkit

import (
	"encoding/json"
	"fmt"
	"os"
	"sort"
	"strconv"
	"time"
)

type Violation struct {
	Class  string         `json:"class"`
	Layer  string         `json:"layer"`
	Detail map[string]any `json:"detail"`
}

type Result struct {
	Property    string            `json:"property"`
	Layer       string            `json:"layer"`
	Shard       int               `json:"shard"`
	NShards     int               `json:"nshards"`
	Evaluations int64             `json:"evaluations"`
	Nontrivial  int64             `json:"nontrivial"`
	States      int64             `json:"states"`
	Transitions int64             `json:"transitions"`
	Counters    map[string]int64  `json:"counters"`
	Outcomes    map[string]int64  `json:"outcomes"`
	Samples     []any             `json:"samples"`
	Violations  []Violation       `json:"violations"`
	VClasses    map[string]int64  `json:"violation_classes"`
	Exhaustive  bool              `json:"exhaustive"`
	Caps        []string          `json:"caps"`
	Notes       []string          `json:"notes"`
	WallS       float64           `json:"wall_s"`
	Done        bool              `json:"done"`
	Params      map[string]string `json:"params"`
}

type Run struct {
	Result
	tier     string
	out      string
	start    time.Time
	deadline time.Time
	replay   map[string]any
	tick     int
	expired  bool
	maxSamples int
}

func envInt(k string, d int) int {
	if v, err := strconv.Atoi(os.Getenv(k)); err == nil {
		return v
	}
	return d
}

// Start reads VERIF_TIER, VERIF_SHARD, VERIF_NSHARDS, VERIF_OUT, VERIF_DEADLINE_S, VERIF_REPLAY.
// It returns nil when VERIF_OUT is unset: harness tests are then skipped, so a stray harness file
// never changes the behaviour of the repository's own test run.
func Start(prop, layer string) *Run {
	out := os.Getenv("VERIF_OUT")
	if out == "" {
		return nil
	}
	r := &Run{tier: os.Getenv("VERIF_TIER"), out: out, start: time.Now(), maxSamples: 6}
	if r.tier == "" {
		r.tier = "quick"
	}
	r.Property, r.Layer = prop, layer
	r.Shard, r.NShards = envInt("VERIF_SHARD", 0), envInt("VERIF_NSHARDS", 1)
	r.Counters, r.Outcomes, r.VClasses = map[string]int64{}, map[string]int64{}, map[string]int64{}
	r.Params = map[string]string{}
	r.Exhaustive = true
	if d := envInt("VERIF_DEADLINE_S", 0); d > 0 {
		r.deadline = r.start.Add(time.Duration(d) * time.Second)
	}
	if p := os.Getenv("VERIF_REPLAY"); p != "" {
		b, err := os.ReadFile(p)
		if err != nil {
			panic(err)
		}
		var v map[string]any
		if err := json.Unmarshal(b, &v); err != nil {
			panic(err)
		}
		r.replay = v
	}
	return r
}

func (r *Run) Thorough() bool { return r.tier == "thorough" }
func (r *Run) Tier() string   { return r.tier }

// Pick returns q in the quick tier and t in the thorough tier.
func (r *Run) Pick(q, t int) int {
	if r.Thorough() {
		return t
	}
	return q
}

// Mine reports whether work unit i belongs to this shard.
func (r *Run) Mine(i int) bool { return i%r.NShards == r.Shard }

// Replay returns the violation detail to re-execute (nil in exploration mode).
func (r *Run) Replay() map[string]any {
	if r.replay == nil {
		return nil
	}
	if d, ok := r.replay["detail"].(map[string]any); ok {
		return d
	}
	return r.replay
}
func (r *Run) ReplayLayer() string {
	if r.replay == nil {
		return ""
	}
	s, _ := r.replay["layer"].(string)
	return s
}

func (r *Run) Eval()               { r.Evaluations++ }
func (r *Run) Evals(n int)         { r.Evaluations += int64(n) }
func (r *Run) NT()                 { r.Nontrivial++ }
func (r *Run) State()              { r.States++ }
func (r *Run) Trans()              { r.Transitions++ }
func (r *Run) Count(k string)      { r.Counters[k]++ }
func (r *Run) CountN(k string, n int) { r.Counters[k] += int64(n) }
func (r *Run) Outcome(k string)    { r.Outcomes[k]++ }
func (r *Run) Param(k, v string)   { r.Params[k] = v }
func (r *Run) Note(s string)       { r.Notes = append(r.Notes, s) }

func (r *Run) Sample(v any) {
	if len(r.Samples) < r.maxSamples {
		r.Samples = append(r.Samples, v)
	}
}

// Expired is cheap to call in inner loops; it looks at the clock every 4096 calls.
func (r *Run) Expired() bool {
	if r.expired {
		return true
	}
	if r.deadline.IsZero() {
		return false
	}
	r.tick++
	if r.tick&4095 != 0 {
		return false
	}
	if time.Now().After(r.deadline) {
		r.expired = true
	}
	return r.expired
}

// ExpiredNow looks at the clock on every call (for coarse loops).
func (r *Run) ExpiredNow() bool {
	if r.expired {
		return true
	}
	if !r.deadline.IsZero() && time.Now().After(r.deadline) {
		r.expired = true
	}
	return r.expired
}

// Cap records that a bound or a time cap cut the enumeration short.
func (r *Run) Cap(what string) {
	r.Exhaustive = false
	for _, c := range r.Caps {
		if c == what {
			return
		}
	}
	r.Caps = append(r.Caps, what)
}

func (r *Run) Violation(class string, detail map[string]any) {
	r.VClasses[class]++
	if r.VClasses[class] <= 5 && len(r.Violations) < 60 {
		r.Violations = append(r.Violations, Violation{Class: class, Layer: r.Layer, Detail: detail})
	}
}

func (r *Run) NViolations() int64 {
	var n int64
	for _, c := range r.VClasses {
		n += c
	}
	return n
}

// Guard runs f and turns a panic into a violation of class "panic".
func (r *Run) Guard(detail func() map[string]any, f func()) {
	defer func() {
		if e := recover(); e != nil {
			d := detail()
			d["panic"] = fmt.Sprint(e)
			r.Violation("panic", d)
		}
	}()
	f()
}

func (r *Run) Finish() {
	if r.expired {
		r.Cap("time")
	}
	r.Done = true
	r.WallS = time.Since(r.start).Seconds()
	// keep outcome maps small
	if len(r.Outcomes) > 200 {
		keys := make([]string, 0, len(r.Outcomes))
		for k := range r.Outcomes {
			keys = append(keys, k)
		}
		sort.Strings(keys)
		r.Counters["distinct_outcomes"] = int64(len(keys))
		trimmed := map[string]int64{}
		for _, k := range keys[:200] {
			trimmed[k] = r.Outcomes[k]
		}
		r.Outcomes = trimmed
	} else {
		r.Counters["distinct_outcomes"] = int64(len(r.Outcomes))
	}
	b, err := json.Marshal(&r.Result)
	if err != nil {
		panic(err)
	}
	if err := os.WriteFile(r.out+".tmp", b, 0o644); err != nil {
		panic(err)
	}
	if err := os.Rename(r.out+".tmp", r.out); err != nil {
		panic(err)
	}
}

// ---------------------------------------------------------------- generators

// Strings calls f with every string over alpha of length minLen..maxLen, shortest first, in
// alphabet order. The slice passed to f is reused. f returns false to stop.
func Strings(alpha []rune, minLen, maxLen int, f func([]rune) bool) bool {
	buf := make([]rune, maxLen)
	idx := make([]int, maxLen)
	for n := minLen; n <= maxLen; n++ {
		for i := 0; i < n; i++ {
			idx[i] = 0
			if len(alpha) > 0 {
				buf[i] = alpha[0]
			}
		}
		if n > 0 && len(alpha) == 0 {
			continue
		}
		for {
			if !f(buf[:n]) {
				return false
			}
			i := n - 1
			for i >= 0 {
				idx[i]++
				if idx[i] < len(alpha) {
					buf[i] = alpha[idx[i]]
					break
				}
				idx[i] = 0
				buf[i] = alpha[0]
				i--
			}
			if i < 0 {
				break
			}
		}
	}
	return true
}

// AllStrings materialises Strings.
func AllStrings(alpha []rune, minLen, maxLen int) [][]rune {
	var out [][]rune
	Strings(alpha, minLen, maxLen, func(s []rune) bool {
		out = append(out, append([]rune(nil), s...))
		return true
	})
	return out
}

// ByteStrings is Strings over bytes.
func ByteStrings(alpha []byte, minLen, maxLen int, f func([]byte) bool) bool {
	ra := make([]rune, len(alpha))
	for i, b := range alpha {
		ra[i] = rune(b)
	}
	buf := make([]byte, maxLen)
	return Strings(ra, minLen, maxLen, func(s []rune) bool {
		for i, r := range s {
			buf[i] = byte(r)
		}
		return f(buf[:len(s)])
	})
}

// Compositions calls f with every way of writing n as an ordered sum of positive parts.
func Compositions(n int, f func([]int) bool) bool {
	if n == 0 {
		return f(nil)
	}
	parts := make([]int, 0, n)
	var rec func(rem int) bool
	rec = func(rem int) bool {
		if rem == 0 {
			return f(parts)
		}
		for k := 1; k <= rem; k++ {
			parts = append(parts, k)
			if !rec(rem - k) {
				return false
			}
			parts = parts[:len(parts)-1]
		}
		return true
	}
	return rec(n)
}

// Sequences calls f with every sequence over 0..k-1 of length minLen..maxLen.
func Sequences(k, minLen, maxLen int, f func([]int) bool) bool {
	alpha := make([]rune, k)
	for i := range alpha {
		alpha[i] = rune(i)
	}
	buf := make([]int, maxLen)
	return Strings(alpha, minLen, maxLen, func(s []rune) bool {
		for i, r := range s {
			buf[i] = int(r)
		}
		return f(buf[:len(s)])
	})
}

// Permutations calls f with every permutation of 0..n-1.
func Permutations(n int, f func([]int) bool) bool {
	p := make([]int, n)
	for i := range p {
		p[i] = i
	}
	var rec func(k int) bool
	rec = func(k int) bool {
		if k == n {
			return f(p)
		}
		for i := k; i < n; i++ {
			p[k], p[i] = p[i], p[k]
			if !rec(k + 1) {
				return false
			}
			p[k], p[i] = p[i], p[k]
		}
		return true
	}
	return rec(0)
}
