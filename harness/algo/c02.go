package algo

// C02 - every reported match has a genuine witness; non-match means none exists; never crashes.

import (
	"fmt"
	"strings"
	"testing"

	"github.com/junegunn/fzf/src/util"
	kit "github.com/junegunn/fzf/src/verifkit"
)

type c02env struct {
	r        *kit.Run
	std      *util.Slab
	tiny     *util.Slab
	scheme   string
	cur      map[string]any // descriptor of the call in flight (for panic reports)
	curKind  int
	curVar   string
}

func (e *c02env) desc(raw, pat []rune, cs, nz, fwd bool, rep int) map[string]any {
	return map[string]any{"scheme": e.scheme, "text": string(raw), "pattern": string(pat), "cs": cs, "nz": nz, "fwd": fwd, "rep": rep}
}

// one (text, pattern, flags) case: all seven matchers, fuzzy ones in three slab/position variants.
func (e *c02env) one(raw, T, pat []rune, cs, nz, fwd bool, rep int, chars *util.Chars) {
	r := e.r
	for kind := 0; kind < nKinds; kind++ {
		want := refMatches(kind, raw, T, pat)
		nvar := 1
		if kind == kV1 || kind == kV2 {
			nvar = 3
		}
		for v := 0; v < nvar; v++ {
			withPos, slab, vname := true, e.std, "pos+slab"
			switch v {
			case 1:
				withPos, slab, vname = false, nil, "nopos+nil"
			case 2:
				withPos, slab, vname = true, e.tiny, "pos+tiny"
			}
			e.curKind, e.curVar = kind, vname
			res, pos := kindFns[kind](cs, nz, fwd, chars, pat, withPos, slab)
			r.Eval()
			got := res.Start >= 0
			if got != want {
				d := e.desc(raw, pat, cs, nz, fwd, rep)
				d["matcher"], d["variant"], d["got"], d["want_match"] = kindNames[kind], vname, fmt.Sprint(res), want
				r.Violation("completeness:"+kindNames[kind], d)
				continue
			}
			if got {
				r.NT()
				if msg := witness(kind, raw, T, pat, res, pos, withPos); msg != "" {
					d := e.desc(raw, pat, cs, nz, fwd, rep)
					d["matcher"], d["variant"], d["got"], d["positions"], d["why"] = kindNames[kind], vname, fmt.Sprint(res), copyPos(pos), msg
					r.Violation("witness:"+kindNames[kind]+":"+msg, d)
				}
			}
		}
	}
}

func (e *c02env) text(raw []rune, pats [][]rune) {
	r := e.r
	var curPat []rune
	var curCS, curNZ, curFwd bool
	var curRep int
	defer func() {
		if p := recover(); p != nil {
			d := e.desc(raw, curPat, curCS, curNZ, curFwd, curRep)
			d["matcher"], d["variant"], d["panic"] = kindNames[e.curKind], e.curVar, fmt.Sprint(p)
			r.Violation("panic", d)
		}
	}()
	ascii := isASCII(raw)
	for rep := 0; rep < 2; rep++ {
		if rep == 1 && !ascii {
			continue // ToChars already yields the rune representation
		}
		chars := mkChars(raw, rep)
		for ci := 0; ci < 4; ci++ {
			cs, nz := ci&1 == 1, ci&2 == 2
			T := refFoldAll(raw, cs, nz)
			for _, pat := range pats {
				if !patOK(pat, cs, nz) {
					continue
				}
				for _, fwd := range []bool{true, false} {
					curPat, curCS, curNZ, curFwd, curRep = pat, cs, nz, fwd, rep
					e.one(raw, T, pat, cs, nz, fwd, rep, &chars)
				}
			}
		}
	}
	r.State()
}

var c02TextAlpha = []rune{'a', 'b', 'A', 'á', 'Á', ' ', '\u3000', '/', '_', '1', '가', '-'}
var c02PatAlpha = []rune{'a', 'b', 'A', 'á', ' ', '/'}

func TestVerif_C02_short(t *testing.T) {
	r := kit.Start("C02", "short")
	if r == nil {
		t.Skip()
	}
	defer r.Finish()
	e := &c02env{r: r, std: util.MakeSlab(100*1024, 2048), tiny: util.MakeSlab(6, 3)}
	if d := r.Replay(); d != nil {
		c02Replay(e, d)
		return
	}
	maxText := r.Pick(4, 6)
	var pats [][]rune
	pats = kit.AllStrings(c02PatAlpha, 1, 3)
	schemes := []string{"default", "path", "history"}
	r.Param("text_alphabet", string(c02TextAlpha))
	r.Param("pattern_alphabet", string(c02PatAlpha))
	r.Param("max_text_len", fmt.Sprint(maxText))
	r.Param("patterns", fmt.Sprint(len(pats)))
	r.Sample(map[string]any{"text": "a_/A", "pattern": "a/", "cs": false, "nz": true, "fwd": false, "rep": 1, "matchers": "all 7, fuzzy in 3 slab/position variants"})
	for si, scheme := range schemes {
		_ = si
		Init(scheme)
		refInit(scheme)
		e.scheme = scheme
		i := 0
		kit.Strings(c02TextAlpha, 0, maxText, func(raw []rune) bool {
			i++
			if !r.Mine(i) {
				return true
			}
			if r.ExpiredNow() {
				return false
			}
			e.text(raw, pats)
			return true
		})
	}
	Init("default")
}

func c02Replay(e *c02env, d map[string]any) {
	s, _ := d["scheme"].(string)
	if s == "" {
		s = "default"
	}
	Init(s)
	refInit(s)
	e.scheme = s
	raw := []rune(d["text"].(string))
	pat := []rune(d["pattern"].(string))
	e.text(raw, [][]rune{pat})
}

// Threshold family: long lines built around the size limits the code distinguishes
// (slab capacities 2048 / 102400, N*M fall-back from V2 to V1, 16-bit offsets), deviation style.
func TestVerif_C02_thresholds(t *testing.T) {
	r := kit.Start("C02", "thresholds")
	if r == nil {
		t.Skip()
	}
	defer r.Finish()
	Init("default")
	refInit("default")
	e := &c02env{r: r, std: util.MakeSlab(100*1024, 2048), tiny: util.MakeSlab(6, 3), scheme: "default"}
	type tcase struct {
		N, M  int
		shape string
		fill  rune
	}
	var cases []tcase
	Ms := []int{1, 2, 3, 50, 1000, 1001}
	for _, M := range Ms {
		seen := map[int]bool{}
		for _, base := range []int{2048 - M, 2048, 102400 / M, 65536} {
			for dd := -2; dd <= 2; dd++ {
				N := base + dd
				if N >= M && N >= 1 && !seen[N] {
					seen[N] = true
					for _, shape := range []string{"head", "tail", "spread", "none", "fillmatch", "mid-ws"} {
						for _, fill := range []rune{'x', 'é'} {
							if fill == 'é' && (N > 3000 && !r.Thorough()) {
								continue
							}
							cases = append(cases, tcase{N, M, shape, fill})
						}
					}
				}
			}
		}
	}
	r.Param("cases", fmt.Sprint(len(cases)))
	r.Sample(map[string]any{"N": 2047, "M": 2, "shape": "tail", "fill": "x"})
	for i, c := range cases {
		if !r.Mine(i) {
			continue
		}
		if r.ExpiredNow() {
			break
		}
		pat := []rune(strings.Repeat("a", c.M-1) + "b")
		raw := make([]rune, c.N)
		for k := range raw {
			raw[k] = c.fill
		}
		switch c.shape {
		case "head":
			copy(raw, pat)
		case "tail":
			copy(raw[c.N-c.M:], pat)
		case "spread":
			den := c.M - 1
			if den < 1 {
				den = 1
			}
			for k := 0; k < c.M; k++ {
				raw[k*(c.N-1)/den] = pat[k]
			}
		case "fillmatch":
			for k := range raw {
				raw[k] = 'a'
			}
			raw[c.N-1] = 'b'
		case "mid-ws":
			// whitespace-trimmed anchors around a long body
			if c.N >= c.M+2 {
				copy(raw[1:], pat)
				raw[0], raw[c.N-1] = ' ', ' '
			}
		}
		func() {
			defer func() {
				if p := recover(); p != nil {
					r.Violation("panic", map[string]any{"N": c.N, "M": c.M, "shape": c.shape, "fill": string(c.fill), "matcher": kindNames[e.curKind], "variant": e.curVar, "panic": fmt.Sprint(p)})
				}
			}()
			for rep := 0; rep < 2; rep++ {
				if rep == 1 && !isASCII(raw) {
					continue
				}
				chars := mkChars(raw, rep)
				T := refFoldAll(raw, true, true)
				for _, fwd := range []bool{true, false} {
					before := len(r.Violations)
					e.one(raw, T, pat, true, true, fwd, rep, &chars)
					for k := before; k < len(r.Violations); k++ {
						// long texts are not useful in a report: replace them by their recipe
						v := &r.Violations[k]
						v.Detail["text"] = fmt.Sprintf("<N=%d M=%d shape=%s fill=%c>", c.N, c.M, c.shape, c.fill)
						v.Detail["pattern"] = fmt.Sprintf("a^%d b", c.M-1)
					}
				}
			}
		}()
		r.State()
	}
}

// The reader decides per line whether the bytes representation can be used (util.ToChars / checkAscii works on
// 8-byte words). One non-ASCII character at every position of lines of every length 1..36: representation, offsets
// and completeness must not depend on where in the word the character sits.
func TestVerif_C02_ascii_detection(t *testing.T) {
	r := kit.Start("C02", "ascii-detection")
	if r == nil {
		t.Skip()
	}
	defer r.Finish()
	Init("default")
	refInit("default")
	e := &c02env{r: r, std: util.MakeSlab(100*1024, 2048), tiny: util.MakeSlab(6, 3), scheme: "default"}
	r.Sample(map[string]any{"text": "abcdefgh" + "é" + "wxyz", "patterns": "the character, its normalised form, an ASCII letter before / after it"})
	i := 0
	for _, ch := range []rune{'é', '한', '😀'} {
		for pre := 0; pre <= 18; pre++ {
			for post := 0; post <= 18; post++ {
				i++
				if !r.Mine(i) {
					continue
				}
				raw := make([]rune, 0, pre+post+1)
				for k := 0; k < pre; k++ {
					raw = append(raw, 'a')
				}
				raw = append(raw, ch)
				for k := 0; k < post; k++ {
					raw = append(raw, 'b')
				}
				pats := [][]rune{{ch}, {'a'}, {'b'}, {'a', ch}, {ch, 'b'}, {'e'}}
				e.text(raw, pats)
			}
		}
	}
}
