package algo

// C05 - matching is a pure function of (line, query, options): call histories on one slab,
// arbitrary stale slab contents, bytes vs runes, positions requested or not.

import (
	"fmt"
	"testing"

	"github.com/junegunn/fzf/src/util"
	kit "github.com/junegunn/fzf/src/verifkit"
)

type c05case struct {
	kind        int
	raw, pat    []rune
	cs, nz, fwd bool
	withPos     bool
	rep         int
}

func (c c05case) d() map[string]any {
	return map[string]any{"matcher": kindNames[c.kind], "text": string(c.raw), "pattern": string(c.pat), "cs": c.cs, "nz": c.nz, "fwd": c.fwd, "withPos": c.withPos, "rep": c.rep}
}

func (c c05case) call(slab *util.Slab) (Result, []int) {
	chars := mkChars(c.raw, c.rep)
	res, pos := kindFns[c.kind](c.cs, c.nz, c.fwd, &chars, c.pat, c.withPos, slab)
	return res, copyPos(pos)
}

func c05cases(texts, pats [][]rune, kinds []int, flags int) []c05case {
	var out []c05case
	for _, raw := range texts {
		for _, pat := range pats {
			for _, kind := range kinds {
				for f := 0; f < flags; f++ {
					cs, fwd, withPos := f&1 == 1, f&2 == 0, f&4 == 0
					if !patOK(pat, cs, true) {
						continue
					}
					out = append(out, c05case{kind, raw, pat, cs, true, fwd, withPos, 0})
				}
			}
		}
	}
	return out
}

func poison(s *util.Slab, mode int) {
	for i := range s.I16 {
		switch mode {
		case 0:
			s.I16[i] = 0x7FFF
		case 1:
			s.I16[i] = -1
		case 2:
			s.I16[i] = -32768
		case 3:
			s.I16[i] = int16(i)
		}
	}
	for i := range s.I32 {
		switch mode {
		case 0:
			s.I32[i] = 0x7FFFFFFF
		case 1:
			s.I32[i] = -1
		case 2:
			s.I32[i] = 0
		case 3:
			s.I32[i] = int32(i)
		}
	}
}

func sameRes(a Result, ap []int, b Result, bp []int) bool {
	return a == b && eqInts(ap, bp)
}

// Histories of 2 (all ordered pairs) and 3 (all triples over a core) calls on one slab.
func TestVerif_C05_slab_histories(t *testing.T) {
	r := kit.Start("C05", "slab-histories")
	if r == nil {
		t.Skip()
	}
	defer r.Finish()
	Init("default")
	texts := kit.AllStrings([]rune{'a', 'b', 'A', ' ', 'á'}, 1, r.Pick(3, 4))
	pats := [][]rune{[]rune("a"), []rune("b"), []rune("ab"), []rune("ba"), []rune("aa"), []rune("aab"), []rune("a b")}
	cases := c05cases(texts, pats, []int{kV2, kV1}, 8)
	if !r.Thorough() {
		// quick: thin the second element of the pair, never the first (every case is the *victim* of some history)
	}
	fresh := make([]Result, len(cases))
	freshPos := make([][]int, len(cases))
	for i, c := range cases {
		fresh[i], freshPos[i] = c.call(nil)
	}
	r.Param("cases", fmt.Sprint(len(cases)))
	r.Sample(map[string]any{"history": []any{cases[len(cases)/2].d(), cases[len(cases)/3].d()}})
	step := 1
	if !r.Thorough() {
		step = 7 // quick: every 7th case as the predecessor; all cases as the victim
	}
	slab := util.MakeSlab(100*1024, 2048)
	small := util.MakeSlab(64, 16) // a slab that some calls overflow and some do not
	for vi, victim := range cases {
		if !r.Mine(vi) {
			continue
		}
		if r.ExpiredNow() {
			break
		}
		r.State()
		for pi := vi % step; pi < len(cases); pi += step {
			for si, s := range []*util.Slab{slab, small} {
				cases[pi].call(s)
				got, gp := victim.call(s)
				r.Eval()
				r.Trans()
				if !sameRes(got, gp, fresh[vi], freshPos[vi]) {
					r.Violation("slab-history-changes-result", map[string]any{"slab": []string{"standard", "small"}[si], "history": []any{cases[pi].d()}, "case": victim.d(),
						"got": fmt.Sprint(got, gp), "fresh": fmt.Sprint(fresh[vi], freshPos[vi])})
				} else if got.Start >= 0 {
					r.NT()
				}
			}
		}
	}
	// triples over a core
	core := c05cases(kit.AllStrings([]rune{'a', 'b', ' '}, 2, 3), [][]rune{[]rune("ab"), []rune("aa")}, []int{kV2}, 4)
	if len(core) > 60 && !r.Thorough() {
		core = core[:60]
	}
	cf := make([]Result, len(core))
	cfp := make([][]int, len(core))
	for i, c := range core {
		cf[i], cfp[i] = c.call(nil)
	}
	for a := range core {
		if !r.Mine(a) {
			continue
		}
		if r.ExpiredNow() {
			break
		}
		for b := range core {
			for c := range core {
				core[a].call(slab)
				core[b].call(slab)
				got, gp := core[c].call(slab)
				r.Eval()
				r.Trans()
				if !sameRes(got, gp, cf[c], cfp[c]) {
					r.Violation("slab-history-changes-result", map[string]any{"history": []any{core[a].d(), core[b].d()}, "case": core[c].d(), "got": fmt.Sprint(got, gp), "fresh": fmt.Sprint(cf[c], cfp[c])})
				}
			}
		}
	}
}

// Arbitrary stale slab contents, representation, position tracking: the C02 short space.
func TestVerif_C05_stale_rep_pos(t *testing.T) {
	r := kit.Start("C05", "stale-rep-pos")
	if r == nil {
		t.Skip()
	}
	defer r.Finish()
	Init("default")
	if d := r.Replay(); d != nil && d["text"] != nil {
		c05one(r, nil, []rune(d["text"].(string)), [][]rune{[]rune(d["pattern"].(string))})
		return
	}
	maxText := r.Pick(5, 6)
	pats := kit.AllStrings([]rune{'a', 'b', 'A', 'á', ' '}, 1, 3)
	var slabs []*util.Slab
	for mode := 0; mode < 4; mode++ {
		s := util.MakeSlab(100*1024, 2048)
		poison(s, mode) // once per shard: afterwards the call history supplies the stale contents
		slabs = append(slabs, s)
		t := util.MakeSlab(40, 12)
		poison(t, mode)
		slabs = append(slabs, t)
	}
	r.Sample(map[string]any{"text": "aAb ", "pattern": "ab", "cs": false, "fwd": true, "slabs": "nil vs 4 poisoned standard + 4 poisoned small", "rep": "bytes vs runes", "withPos": "true vs false"})
	i := 0
	kit.Strings([]rune{'a', 'b', 'A', 'á', 'Á', ' ', '/', '가'}, 1, maxText, func(raw []rune) bool {
		i++
		if !r.Mine(i) {
			return true
		}
		if r.ExpiredNow() {
			return false
		}
		c05one(r, slabs, raw, pats)
		return true
	})
}

func c05one(r *kit.Run, slabs []*util.Slab, raw []rune, pats [][]rune) {
	if slabs == nil {
		for mode := 0; mode < 4; mode++ {
			s := util.MakeSlab(100*1024, 2048)
			poison(s, mode)
			slabs = append(slabs, s)
		}
	}
	r.State()
	ascii := isASCII(raw)
	for _, pat := range pats {
		for f := 0; f < 8; f++ {
			cs, nz, fwd := f&1 == 1, f&2 == 2, f&4 == 0
			if !patOK(pat, cs, nz) {
				continue
			}
			for kind := 0; kind < nKinds; kind++ {
				base := c05case{kind, raw, pat, cs, nz, fwd, true, 0}
				want, wp := base.call(nil)
				r.Eval()
				if want.Start >= 0 {
					r.NT()
				}
				// stale contents
				if kind == kV1 || kind == kV2 {
					for si, s := range slabs {
						got, gp := base.call(s)
						r.Eval()
						if !sameRes(got, gp, want, wp) {
							d := base.d()
							d["slab"], d["got"], d["fresh"] = si, fmt.Sprint(got, gp), fmt.Sprint(want, wp)
							r.Violation("stale-slab-changes-result", d)
						}
					}
				}
				// representation
				if ascii {
					alt := base
					alt.rep = 1
					got, gp := alt.call(nil)
					r.Eval()
					if !sameRes(got, gp, want, wp) {
						d := base.d()
						d["got_runes"], d["got_bytes"] = fmt.Sprint(got, gp), fmt.Sprint(want, wp)
						r.Violation("representation-changes-result", d)
					}
				}
				// positions requested or not
				np := base
				np.withPos = false
				got, _ := np.call(nil)
				r.Eval()
				if got != want {
					d := base.d()
					d["with_positions"], d["without_positions"] = fmt.Sprint(want), fmt.Sprint(got)
					cls := "positions-flag-changes-result"
					if kind == kV2 && len(pat) > 1 && got.Score == want.Score && got.End == want.End && got.Start >= 0 && got.Start < want.Start {
						// D11: without the back-trace V2 reports the first occurrence of the first pattern character
						T := refFoldAll(raw, cs, nz)
						for j := range T {
							if T[j] == pat[0] {
								if got.Start == j {
									cls = "D11:v2-start-without-positions"
								}
								break
							}
						}
					}
					r.Violation(cls, d)
				}
			}
		}
	}
}

// Long lines: which algorithm runs (V2, or the greedy fall-back when N*M exceeds the slab) and where its scratch
// arrays come from (slab or heap) depend on sizes around the slab capacity. The result of every case on a slab that
// an earlier LONG case used must equal its result on a fresh slab of the standard size.
func TestVerif_C05_slab_histories_long(t *testing.T) {
	r := kit.Start("C05", "slab-histories-long")
	if r == nil {
		t.Skip()
	}
	defer r.Finish()
	Init("default")
	type lc struct {
		n     int
		shape string
		pat   string
	}
	var cases []lc
	for _, n := range []int{3, 2000, 2047, 2049, 20000, 34000, 51199, 51200, 51201, 60000, 70000} {
		for _, shape := range []string{"head+tail", "tail", "spread"} {
			for _, pat := range []string{"ab", "a"} {
				cases = append(cases, lc{n, shape, pat})
			}
		}
	}
	build := func(c lc) util.Chars {
		raw := make([]byte, c.n)
		for i := range raw {
			raw[i] = 'x'
		}
		switch c.shape {
		case "head+tail":
			copy(raw, "a b")
			if c.n >= 6 {
				copy(raw[c.n-3:], " ab")
			}
		case "tail":
			if c.n >= 2 {
				copy(raw[c.n-2:], "ab")
			}
		case "spread":
			raw[0] = 'a'
			raw[c.n-1] = 'b'
			raw[c.n/2] = 'a'
		}
		return util.ToChars(raw)
	}
	call := func(c lc, slab *util.Slab) string {
		chars := build(c)
		res, pos := FuzzyMatchV2(false, true, true, &chars, []rune(c.pat), true, slab)
		return fmt.Sprint(res, copyPos(pos))
	}
	r.Sample(map[string]any{"history": "N=20000 'ab' (overflows the slab)", "case": "N=60000 'ab' (N*M beyond the slab: greedy fall-back)"})
	idx := 0
	for vi, victim := range cases {
		fresh := call(victim, util.MakeSlab(100*1024, 2048))
		for pi, pred := range cases {
			idx++
			if !r.Mine(idx) {
				continue
			}
			slab := util.MakeSlab(100*1024, 2048)
			call(pred, slab)
			got := call(victim, slab)
			r.Eval()
			r.Trans()
			if got != fresh {
				r.Violation("slab-history-changes-result:long-lines", map[string]any{"history": fmt.Sprintf("N=%d %s %q", pred.n, pred.shape, pred.pat),
					"case": fmt.Sprintf("N=%d %s %q", victim.n, victim.shape, victim.pat), "got": got, "fresh_standard_slab": fresh})
			} else {
				r.NT()
			}
			_ = pi
		}
		_ = vi
		r.State()
	}
}
