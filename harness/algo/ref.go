package algo

// Reference semantics for the matchers, written from the documented rules (README / man page /
// the header comment of algo.go describing the scoring model) with plain loops and full int matrices.
// Nothing here calls the optimised code. The normalisation table (NormalizeRunes) is trusted data.

import (
	"sort"
	"unicode"

	"github.com/junegunn/fzf/src/util"
)

type rclass int

const (
	rWhite rclass = iota
	rNonWord
	rDelim
	rLower
	rUpper
	rLetter
	rNumber
)

var refDelims = "/,:;|"
var refInitial = rWhite
var refBW, refBD = 10, 9

func refInit(scheme string) {
	switch scheme {
	case "default":
		refDelims, refInitial, refBW, refBD = "/,:;|", rWhite, 10, 9
	case "path":
		refDelims, refInitial, refBW, refBD = "/", rDelim, 8, 9
	case "history":
		refDelims, refInitial, refBW, refBD = "/,:;|", rWhite, 8, 8
	}
}

func refClass(r rune) rclass {
	switch {
	case r >= 'a' && r <= 'z':
		return rLower
	case r >= 'A' && r <= 'Z':
		return rUpper
	case r >= '0' && r <= '9':
		return rNumber
	}
	if r < 128 {
		for _, w := range " \t\n\v\f\r" {
			if r == w {
				return rWhite
			}
		}
		for _, d := range refDelims {
			if r == d {
				return rDelim
			}
		}
		return rNonWord
	}
	switch {
	case unicode.IsLower(r):
		return rLower
	case unicode.IsUpper(r):
		return rUpper
	case unicode.IsNumber(r):
		return rNumber
	case unicode.IsLetter(r):
		return rLetter
	case unicode.IsSpace(r):
		return rWhite
	}
	for _, d := range refDelims {
		if r == d {
			return rDelim
		}
	}
	return rNonWord
}

func refBonus(prev, cur rclass) int {
	if cur > rNonWord { // word character
		switch prev {
		case rWhite:
			return refBW
		case rDelim:
			return refBD
		case rNonWord:
			return 8
		}
	}
	if prev == rLower && cur == rUpper || prev != rNumber && cur == rNumber {
		return 7
	}
	switch cur {
	case rNonWord, rDelim:
		return 8
	case rWhite:
		return refBW
	}
	return 0
}

func refFold(r rune, cs, nz bool) rune {
	if !cs {
		r = unicode.ToLower(r)
	}
	if nz {
		r = NormalizeRunes([]rune{r})[0]
	}
	return r
}

func refFoldAll(raw []rune, cs, nz bool) []rune {
	T := make([]rune, len(raw))
	for i, r := range raw {
		T[i] = refFold(r, cs, nz)
	}
	return T
}

// patOK: the documented precondition on patterns handed to the matchers.
func patOK(pat []rune, cs, nz bool) bool {
	for _, r := range pat {
		if !cs && unicode.ToLower(r) != r {
			return false
		}
		if nz && NormalizeRunes([]rune{r})[0] != r {
			return false
		}
	}
	return true
}

func refB(raw []rune) []int {
	b := make([]int, len(raw))
	prev := refInitial
	for i, r := range raw {
		c := refClass(r)
		b[i] = refBonus(prev, c)
		prev = c
	}
	return b
}

func max3(a, b, c int) int {
	if b > a {
		a = b
	}
	if c > a {
		a = c
	}
	return a
}

const ninf = -1 << 30

// refDP: whole-line evaluation of the documented recurrence with explicit validity.
// T is the folded text, B the bonus vector.
func refDP(T []rune, B []int, pat []rune) (int, bool) {
	N, M := len(T), len(pat)
	if M == 0 || N == 0 {
		return 0, M == 0
	}
	H := make([][]int, M)
	C := make([][]int, M)
	for i := range H {
		H[i] = make([]int, N)
		C[i] = make([]int, N)
		for j := range H[i] {
			H[i][j] = ninf
		}
	}
	prev, inGap, seen := 0, false, false
	for j := 0; j < N; j++ {
		if T[j] == pat[0] {
			H[0][j] = 16 + 2*B[j]
			C[0][j] = 1
			inGap = false
			seen = true
		} else {
			g := -3
			if inGap {
				g = -1
			}
			v := prev + g
			if v < 0 {
				v = 0
			}
			if seen {
				H[0][j] = v
			}
			inGap = true
			if !seen {
				v = 0
			}
			prev = v
			continue
		}
		prev = H[0][j]
	}
	for i := 1; i < M; i++ {
		inGap := false
		for j := 1; j < N; j++ {
			s1, s2 := ninf, ninf
			cons := 0
			if H[i][j-1] != ninf {
				g := -3
				if inGap {
					g = -1
				}
				s2 = H[i][j-1] + g
			}
			if T[j] == pat[i] && H[i-1][j-1] != ninf {
				s1 = H[i-1][j-1] + 16
				b := B[j]
				cons = C[i-1][j-1] + 1
				if cons > 1 {
					fb := B[j-cons+1]
					if b >= 8 && b > fb {
						cons = 1
					} else {
						b = max3(b, 4, fb)
					}
				}
				if s1+b < s2 {
					s1 += B[j]
					cons = 0
				} else {
					s1 += b
				}
			}
			if s1 == ninf && s2 == ninf {
				continue
			}
			C[i][j] = cons
			inGap = s1 < s2
			H[i][j] = max3(s1, s2, 0)
		}
	}
	best, ok := 0, false
	for j := 0; j < N; j++ {
		if H[M-1][j] != ninf {
			if !ok || H[M-1][j] > best {
				best = H[M-1][j]
			}
			ok = true
		}
	}
	return best, ok
}

// refAlign: score of one explicit alignment (positions ascending); floor = the recurrence's zero floor.
func refAlign(B []int, pos []int, floor bool) int {
	r, cons, first, inGap := 0, 0, 0, false
	k := 0
	for j := pos[0]; j <= pos[len(pos)-1]; j++ {
		if k < len(pos) && pos[k] == j {
			b := B[j]
			if cons == 0 {
				first = b
			} else {
				if b >= 8 && b > first {
					first = b
				}
				b = max3(b, first, 4)
			}
			if k == 0 {
				r += 16 + 2*b
			} else {
				r += 16 + b
			}
			cons++
			inGap = false
			k++
		} else {
			if inGap {
				r--
			} else {
				r -= 3
			}
			if floor && r < 0 {
				r = 0
			}
			inGap = true
			cons, first = 0, 0
		}
	}
	return r
}

// bestAlign: maximum of refAlign over every alignment that exists in the line.
func bestAlign(T []rune, B []int, pat []rune) (int, bool) {
	N, M := len(T), len(pat)
	best, ok := 0, false
	pos := make([]int, M)
	var rec func(i, from int)
	rec = func(i, from int) {
		if i == M {
			s := refAlign(B, pos, true)
			if !ok || s > best {
				best = s
			}
			ok = true
			return
		}
		for j := from; j < N; j++ {
			if T[j] == pat[i] {
				pos[i] = j
				rec(i+1, j+1)
			}
		}
	}
	rec(0, 0)
	return best, ok
}

func isSubseq(T, pat []rune) bool {
	i := 0
	for _, r := range T {
		if i < len(pat) && r == pat[i] {
			i++
		}
	}
	return i == len(pat)
}

func eqAt(T []rune, at int, pat []rune) bool {
	if at < 0 || at+len(pat) > len(T) {
		return false
	}
	for i, p := range pat {
		if T[at+i] != p {
			return false
		}
	}
	return true
}

// boundary on the left of index i / on the right of index j (exclusive end): start or end of the
// line, or a neighbouring character that is whitespace, a delimiter or another non-word character.
func leftBoundary(raw []rune, i int) bool {
	return i == 0 || refClass(raw[i-1]) <= rDelim
}
func rightBoundary(raw []rune, j int) bool {
	return j == len(raw) || refClass(raw[j]) <= rDelim
}

func leadingWS(raw []rune) int {
	n := 0
	for _, r := range raw {
		if !unicode.IsSpace(r) {
			break
		}
		n++
	}
	return n
}
func trailingWS(raw []rune) int {
	n := 0
	for i := len(raw) - 1; i >= 0; i-- {
		if !unicode.IsSpace(raw[i]) {
			break
		}
		n++
	}
	return n
}

const (
	kV1 = iota
	kV2
	kExact
	kBoundary
	kPrefix
	kSuffix
	kEqual
	nKinds
)

var kindNames = [...]string{"FuzzyMatchV1", "FuzzyMatchV2", "ExactMatchNaive", "ExactMatchBoundary", "PrefixMatch", "SuffixMatch", "EqualMatch"}
var kindFns = [...]Algo{FuzzyMatchV1, FuzzyMatchV2, ExactMatchNaive, ExactMatchBoundary, PrefixMatch, SuffixMatch, EqualMatch}

// refMatches: does a witness exist (M >= 1)?
func refMatches(kind int, raw, T, pat []rune) bool {
	M := len(pat)
	switch kind {
	case kV1, kV2:
		return isSubseq(T, pat)
	case kExact:
		for i := 0; i+M <= len(T); i++ {
			if eqAt(T, i, pat) {
				return true
			}
		}
		return false
	case kBoundary:
		for i := 0; i+M <= len(T); i++ {
			if eqAt(T, i, pat) && leftBoundary(raw, i) && rightBoundary(raw, i+M) {
				return true
			}
		}
		return false
	case kPrefix:
		at := 0
		if !unicode.IsSpace(pat[0]) {
			at = leadingWS(raw)
		}
		return eqAt(T, at, pat)
	case kSuffix:
		end := len(raw)
		if !unicode.IsSpace(pat[M-1]) {
			end -= trailingWS(raw)
		}
		return eqAt(T, end-M, pat)
	case kEqual:
		at, end := 0, len(raw)
		if !unicode.IsSpace(pat[0]) {
			at = leadingWS(raw)
		}
		if !unicode.IsSpace(pat[M-1]) {
			end -= trailingWS(raw)
		}
		if end < at { // whitespace-only line counted from both sides
			return false
		}
		return end-at == M && eqAt(T, at, pat)
	}
	panic("kind")
}

// witness: "" if (res, pos) is a genuine witness of kind on raw, else a description.
func witness(kind int, raw, T, pat []rune, res Result, pos *[]int, withPos bool) string {
	M := len(pat)
	if res.Start < 0 {
		return ""
	}
	if res.Start > res.End || res.End > len(raw) {
		return "range out of bounds"
	}
	if kind == kV1 || kind == kV2 {
		if withPos {
			if pos == nil {
				return "positions requested but nil"
			}
			pp := append([]int{}, (*pos)...)
			sort.Ints(pp)
			if len(pp) != M {
				return "positions count"
			}
			for i, p := range pp {
				if i > 0 && pp[i-1] >= p {
					return "positions not strictly increasing"
				}
				if p < res.Start || p >= res.End {
					return "position outside range"
				}
				if T[p] != pat[i] {
					return "position holds wrong character"
				}
			}
		}
		if !isSubseq(T[res.Start:res.End], pat) {
			return "range holds no witness"
		}
		return ""
	}
	if res.End-res.Start != M {
		return "exact range length"
	}
	if !eqAt(T, res.Start, pat) {
		return "exact range content"
	}
	switch kind {
	case kBoundary:
		if !leftBoundary(raw, res.Start) || !rightBoundary(raw, res.End) {
			return "boundary condition"
		}
	case kPrefix:
		at := 0
		if !unicode.IsSpace(pat[0]) {
			at = leadingWS(raw)
		}
		if res.Start != at {
			return "prefix anchor"
		}
	case kSuffix:
		end := len(raw)
		if !unicode.IsSpace(pat[M-1]) {
			end -= trailingWS(raw)
		}
		if res.End != end {
			return "suffix anchor"
		}
	case kEqual:
		at, end := 0, len(raw)
		if !unicode.IsSpace(pat[0]) {
			at = leadingWS(raw)
		}
		if !unicode.IsSpace(pat[M-1]) {
			end -= trailingWS(raw)
		}
		if res.Start != at || res.End != end {
			return "equal anchor"
		}
	}
	return ""
}

func isASCII(raw []rune) bool {
	for _, r := range raw {
		if r >= 128 {
			return false
		}
	}
	return true
}

// mkChars builds the Chars in the requested representation: rep 0 = what the reader produces
// (bytes when the line is ASCII), rep 1 = forced runes.
func mkChars(raw []rune, rep int) util.Chars {
	if rep == 0 {
		return util.ToChars([]byte(string(raw)))
	}
	return util.RunesToChars(append([]rune{}, raw...))
}

func copyPos(p *[]int) []int {
	if p == nil {
		return nil
	}
	pp := append([]int{}, (*p)...)
	sort.Ints(pp)
	return pp
}

func eqInts(a, b []int) bool {
	if len(a) != len(b) {
		return false
	}
	for i := range a {
		if a[i] != b[i] {
			return false
		}
	}
	return true
}
