package algo

// C03 - scores follow the documented scoring model.

import (
	"fmt"
	"testing"

	"github.com/junegunn/fzf/src/util"
	kit "github.com/junegunn/fzf/src/verifkit"
)

// one symbol per character class the code distinguishes, in both the ASCII table and the non-ASCII (unicode package) path:
// lower a b á, upper A Á, digit 1 ٣, other letter 가, whitespace ' ' U+3000, delimiter / ,  non-word - _ —
var c03TextAlpha = []rune{'a', 'b', 'A', '1', ' ', '/', '-', '_', 'á', 'Á', '가', ',', '\u3000', '٣', '—'}
var c03PatAlpha = []rune{'a', 'b', 'A', '1', 'á'}

type c03env struct {
	r      *kit.Run
	std    *util.Slab
	scheme string
}

func (e *c03env) d(raw, pat []rune, cs, nz, fwd bool, rep int) map[string]any {
	return map[string]any{"scheme": e.scheme, "text": string(raw), "pattern": string(pat), "cs": cs, "nz": nz, "fwd": fwd, "rep": rep}
}

func occurrence(res Result) []int {
	pp := make([]int, 0, res.End-res.Start)
	for i := res.Start; i < res.End; i++ {
		pp = append(pp, i)
	}
	return pp
}

func (e *c03env) one(raw, T []rune, B []int, pat []rune, cs, nz, fwd bool, rep int, chars *util.Chars) {
	r := e.r
	r.Eval()
	res, _ := FuzzyMatchV2(cs, nz, fwd, chars, pat, false, e.std)
	want, ok := refDP(T, B, pat)
	if (res.Start >= 0) != ok {
		d := e.d(raw, pat, cs, nz, fwd, rep)
		d["got"], d["ref_match"] = fmt.Sprint(res), ok
		r.Violation("v2-match-vs-recurrence", d)
		return
	}
	if !ok {
		return
	}
	r.NT()
	if res.Score != want {
		d := e.d(raw, pat, cs, nz, fwd, rep)
		d["got"], d["recurrence"] = res.Score, want
		cls := "v2-score-vs-recurrence"
		// D9: the single-character fast path stops at the first occurrence with a boundary bonus
		if len(pat) == 1 && fwd && res.Score < want {
			for j := range T {
				if T[j] == pat[0] && B[j] >= 8 {
					if res.Score == 16+2*B[j] {
						cls = "D9:v2-single-char-first-boundary-occurrence"
					}
					break
				}
			}
		}
		r.Violation(cls, d)
	}
	ba, _ := bestAlign(T, B, pat)
	if res.Score > ba {
		d := e.d(raw, pat, cs, nz, fwd, rep)
		d["got"], d["best_alignment"] = res.Score, ba
		r.Violation("v2-score-exceeds-best-alignment", d)
	}
	// V1: the score of exactly the occurrence it reports
	r1, p1 := FuzzyMatchV1(cs, nz, fwd, chars, pat, true, e.std)
	r.Eval()
	if r1.Start >= 0 && p1 != nil && len(*p1) == len(pat) {
		pp := copyPos(p1)
		if s := refAlign(B, pp, false); s != r1.Score {
			d := e.d(raw, pat, cs, nz, fwd, rep)
			d["got"], d["occurrence_score"], d["positions"] = r1.Score, s, pp
			r.Violation("v1-score-vs-occurrence", d)
		}
		if r1.Score > ba {
			d := e.d(raw, pat, cs, nz, fwd, rep)
			d["got"], d["best_alignment"] = r1.Score, ba
			r.Violation("v1-score-exceeds-best-alignment", d)
		}
	}
	for _, kind := range []int{kExact, kPrefix, kSuffix} {
		re, _ := kindFns[kind](cs, nz, fwd, chars, pat, false, e.std)
		r.Eval()
		if re.Start >= 0 && re.End <= len(raw) && re.End-re.Start == len(pat) {
			if s := refAlign(B, occurrence(re), false); s != re.Score {
				d := e.d(raw, pat, cs, nz, fwd, rep)
				d["matcher"], d["got"], d["occurrence_score"], d["range"] = kindNames[kind], re.Score, s, fmt.Sprint(re)
				r.Violation("score-vs-occurrence:"+kindNames[kind], d)
			}
		}
	}
}

func (e *c03env) text(raw []rune, pats [][]rune) {
	r := e.r
	var cp []rune
	defer func() {
		if p := recover(); p != nil {
			r.Violation("panic", map[string]any{"scheme": e.scheme, "text": string(raw), "pattern": string(cp), "panic": fmt.Sprint(p)})
		}
	}()
	B := refB(raw)
	ascii := isASCII(raw)
	for rep := 0; rep < 2; rep++ {
		if rep == 1 && !ascii {
			continue
		}
		chars := mkChars(raw, rep)
		for ci := 0; ci < 4; ci++ {
			cs, nz := ci&1 == 1, ci&2 == 2
			T := refFoldAll(raw, cs, nz)
			for _, pat := range pats {
				if !patOK(pat, cs, nz) {
					continue
				}
				cp = pat
				for _, fwd := range []bool{true, false} {
					e.one(raw, T, B, pat, cs, nz, fwd, rep, &chars)
				}
			}
		}
	}
	r.State()
}

func TestVerif_C03_short(t *testing.T) {
	r := kit.Start("C03", "short")
	if r == nil {
		t.Skip()
	}
	defer r.Finish()
	e := &c03env{r: r, std: util.MakeSlab(100*1024, 2048)}
	if d := r.Replay(); d != nil {
		s, _ := d["scheme"].(string)
		Init(s)
		refInit(s)
		e.scheme = s
		e.text([]rune(d["text"].(string)), [][]rune{[]rune(d["pattern"].(string))})
		return
	}
	maxText := r.Pick(4, 5)
	pats := kit.AllStrings(c03PatAlpha, 1, 3)
	r.Param("text_alphabet", string(c03TextAlpha))
	r.Param("pattern_alphabet", string(c03PatAlpha))
	r.Param("max_text_len", fmt.Sprint(maxText))
	r.Sample(map[string]any{"scheme": "path", "text": "a/bA1", "pattern": "ab1", "cs": false, "nz": true, "fwd": true, "rep": 0})
	for _, scheme := range []string{"default", "path", "history"} {
		Init(scheme)
		refInit(scheme)
		e.scheme = scheme
		i := 0
		kit.Strings(c03TextAlpha, 1, maxText, func(raw []rune) bool {
			i++
			if !r.Mine(i) {
				return true
			}
			if r.ExpiredNow() {
				return false
			}
			e.text(raw, pats)
			return true
		})
	}
	Init("default")
}

// Long lines: the same equalities at the size thresholds (window trimming by asciiFuzzyIndex, slab carving).
func TestVerif_C03_long(t *testing.T) {
	r := kit.Start("C03", "long")
	if r == nil {
		t.Skip()
	}
	defer r.Finish()
	e := &c03env{r: r, std: util.MakeSlab(100*1024, 2048)}
	cores := kit.AllStrings([]rune{'a', 'b', ' ', '/', 'A'}, 1, r.Pick(3, 4))
	pats := [][]rune{[]rune("a"), []rune("ab"), []rune("ba"), []rune("aab"), []rune("b")}
	type shape struct{ pre, post int; fill rune }
	var shapes []shape
	for _, pre := range []int{0, 1, 2040, 2047, 2048} {
		for _, post := range []int{0, 1, 2047} {
			for _, fill := range []rune{'x', ' ', 'é'} {
				shapes = append(shapes, shape{pre, post, fill})
			}
		}
	}
	r.Sample(map[string]any{"pre": 2047, "core": "a/b", "post": 1, "fill": "x", "pattern": "ab"})
	idx := 0
	for _, scheme := range []string{"default", "path", "history"} {
		Init(scheme)
		refInit(scheme)
		e.scheme = scheme
		for _, sh := range shapes {
			for _, core := range cores {
				idx++
				if !r.Mine(idx) {
					continue
				}
				if r.ExpiredNow() {
					return
				}
				raw := make([]rune, 0, sh.pre+len(core)+sh.post)
				for k := 0; k < sh.pre; k++ {
					raw = append(raw, sh.fill)
				}
				raw = append(raw, core...)
				for k := 0; k < sh.post; k++ {
					raw = append(raw, sh.fill)
				}
				before := len(r.Violations)
				func() {
					defer func() {
						if p := recover(); p != nil {
							r.Violation("panic", map[string]any{"scheme": scheme, "pre": sh.pre, "post": sh.post, "fill": string(sh.fill), "core": string(core), "panic": fmt.Sprint(p)})
						}
					}()
					B := refB(raw)
					for rep := 0; rep < 2; rep++ {
						if rep == 1 && !isASCII(raw) {
							continue
						}
						chars := mkChars(raw, rep)
						T := refFoldAll(raw, false, true)
						for _, pat := range pats {
							// bestAlign is exponential in the number of candidate positions: the fill never matches the pattern
							for _, fwd := range []bool{true, false} {
								e.one(raw, T, B, pat, false, true, fwd, rep, &chars)
							}
						}
					}
				}()
				for k := before; k < len(r.Violations); k++ {
					r.Violations[k].Detail["text"] = fmt.Sprintf("<%c^%d %q %c^%d>", sh.fill, sh.pre, string(core), sh.fill, sh.post)
				}
				r.State()
			}
		}
	}
	Init("default")
}

// Boundary and equal terms: the documentation gives an ordering, not a formula.
func TestVerif_C03_boundary_order(t *testing.T) {
	r := kit.Start("C03", "boundary-order")
	if r == nil {
		t.Skip()
	}
	defer r.Finish()
	if r.Shard != 0 {
		return
	}
	ctx := []string{"", " ", "/", "-", ",", "\t"}
	r.Sample(map[string]any{"left": "x ", "term": "'foo'", "right": "_x"})
	for _, scheme := range []string{"default", "path", "history"} {
		Init(scheme)
		refInit(scheme)
		for _, pat := range []string{"a", "ab", "foo", "a1"} {
			p := []rune(pat)
			score := func(line string) int {
				chars := util.ToChars([]byte(line))
				r.Eval()
				res, _ := ExactMatchBoundary(false, true, true, &chars, p, false, nil)
				if res.Start < 0 {
					r.Violation("boundary-no-match", map[string]any{"scheme": scheme, "line": line, "pattern": pat})
					return -1
				}
				r.NT()
				return res.Score
			}
			wrap := func(l, rr string) string {
				s := pat
				if l != "" {
					s = "xxx" + l + s
				}
				if rr != "" {
					s = s + rr + "xxx"
				}
				return s
			}
			for _, l := range ctx {
				for _, rr := range ctx {
					s1, s2, s3, s4 := score(wrap(l, rr)), score(wrap(l, "_")), score(wrap("_", rr)), score(wrap("_", "_"))
					r.State()
					if !(s1 > s2 && s2 > s3 && s3 > s4 && s4 > 0) {
						r.Violation("boundary-order", map[string]any{"scheme": scheme, "pattern": pat, "left": l, "right": rr, "scores": []int{s1, s2, s3, s4}})
					}
					// depends only on (pattern, boundary characters): other surroundings do not matter
					alt := pat
					if l != "" {
						alt = "yy zz" + l + alt
					}
					if rr != "" {
						alt = alt + rr + "q"
					}
					if s := score(alt); s != s1 {
						r.Violation("boundary-score-depends-on-surroundings", map[string]any{"scheme": scheme, "pattern": pat, "line1": wrap(l, rr), "line2": alt, "scores": []int{s1, s}})
					}
				}
			}
			// equal: positive and a function of the pattern length only
			var eqScores []int
			for _, line := range []string{pat, "  " + pat, pat + "  ", " " + pat + "\t"} {
				chars := util.ToChars([]byte(line))
				r.Eval()
				res, _ := EqualMatch(false, true, true, &chars, p, false, nil)
				eqScores = append(eqScores, res.Score)
				if res.Start < 0 || res.Score <= 0 || res.Score != eqScores[0] {
					r.Violation("equal-score", map[string]any{"scheme": scheme, "pattern": pat, "line": line, "got": fmt.Sprint(res), "scores": eqScores})
				}
			}
		}
	}
	Init("default")
}
