package fzf

// C18 - the query history file keeps the last N submitted queries in order.
//
// Explicit-state BFS over chains of sessions on real files in the worker's private directory.
// A session is what the terminal does with a History: NewHistory(path, max), then any number of
// previous / next / edit steps (prev-history and next-history call override(input) and then move),
// then it ends submitting at most one query (append(input) on exit codes <= 1, nothing on abort).
// Reference model: a plain list of entries plus one scratch line, an overlay of edited texts, a cursor.
//
// Observations compared (nothing else): the strings returned by previous()/next(), the bytes of the
// history file after every step, and what a fresh session can reach by navigating (loaded entries).
// The private fields of History are only used as part of the deduplication key.

import (
	"fmt"
	"os"
	"sort"
	"strings"
	"testing"

	kit "github.com/junegunn/fzf/src/verifkit"
)

const c18Missing = "<missing>"

// ---------------------------------------------------------------- reference model

// entries of a history file: its lines, oldest first. Leading and trailing newlines carry no entry;
// a file without a final newline ends with a complete entry all the same.
func c18Entries(file string) []string {
	file = strings.Trim(file, "\n")
	if file == "" {
		return nil
	}
	return strings.Split(file, "\n")
}

type c18Model struct {
	entries []string // what the session loaded
	shown   []string // text currently shown in each slot (entries + scratch line), with edits
	cur     int
	input   string // the terminal's query line
}

func c18NewModel(file string) *c18Model {
	e := c18Entries(file)
	m := &c18Model{entries: e, cur: len(e)}
	m.shown = append(append([]string{}, e...), "")
	return m
}

func (m *c18Model) prev() string {
	m.shown[m.cur] = m.input
	if m.cur > 0 {
		m.cur--
	}
	m.input = m.shown[m.cur]
	return m.input
}

func (m *c18Model) next() string {
	m.shown[m.cur] = m.input
	if m.cur < len(m.shown)-1 {
		m.cur++
	}
	m.input = m.shown[m.cur]
	return m.input
}

// file after the session ended with query q (missing stays missing only if no session ever opened it)
func c18RefFile(entries []string, q string, max int) string {
	all := append(append([]string{}, entries...), q)
	if len(all) > max {
		all = all[len(all)-max:]
	}
	var sb strings.Builder
	for _, e := range all {
		sb.WriteString(e)
		sb.WriteByte('\n')
	}
	return sb.String()
}

func (m *c18Model) key() string {
	return fmt.Sprintf("%q|%q|%d|%q", m.entries, m.shown, m.cur, m.input)
}

// ---------------------------------------------------------------- the system under test, one world

type c18World struct {
	r       *kit.Run
	path    string
	max     int
	init    string // initial file content or c18Missing
	trace   []string
	h       *History
	m       *c18Model
	session int // sessions completed
	steps   int // steps in the open session
	open    bool
	input   string
	bad     bool
	check   bool // report violations (only for the newest step of a trace; earlier steps were checked before)
}

func c18ReadFile(path string) string {
	b, err := os.ReadFile(path)
	if err != nil {
		return c18Missing
	}
	return string(b)
}

func (w *c18World) detail(extra map[string]any) map[string]any {
	d := map[string]any{"max": w.max, "init": w.init, "trace": append([]string{}, w.trace...)}
	for k, v := range extra {
		d[k] = v
	}
	return d
}

func (w *c18World) violation(class string, extra map[string]any) {
	w.bad = true
	if w.check {
		w.r.Violation(class, w.detail(extra))
	}
}

func (w *c18World) guard(f func()) {
	defer func() {
		if e := recover(); e != nil {
			w.violation("panic", map[string]any{"panic": fmt.Sprint(e)})
		}
	}()
	f()
}

func c18Reset(path, init string) {
	os.Remove(path)
	if init != c18Missing {
		if err := os.WriteFile(path, []byte(init), 0o600); err != nil {
			panic(err)
		}
	}
}

// begin a session: NewHistory + what a fresh session can reach by navigation
func (w *c18World) begin() {
	before := c18ReadFile(w.path)
	content := before
	if content == c18Missing {
		content = ""
	}
	w.m = c18NewModel(content)
	w.guard(func() {
		h, err := NewHistory(w.path, w.max)
		if err != nil {
			w.violation("load:error", map[string]any{"error": err.Error(), "file": before})
			return
		}
		w.h = h
		if after := c18ReadFile(w.path); after != content {
			w.violation("load:file-changed", map[string]any{"before": before, "after": after})
		}
		// probe instance: walk to the oldest entry and two steps further, then back down and two further
		p, err := NewHistory(w.path, w.max)
		if err != nil {
			w.violation("load:error", map[string]any{"error": err.Error(), "file": before})
			return
		}
		n := len(w.m.entries)
		pm := c18NewModel(content)
		var got, want []string
		for i := 0; i < n+2; i++ {
			got, want = append(got, p.previous()), append(want, pm.prev())
		}
		for i := 0; i < n+3; i++ {
			got, want = append(got, p.next()), append(want, pm.next())
		}
		w.r.Eval()
		if strings.Join(got, "\x00") != strings.Join(want, "\x00") {
			w.violation("load:entries", map[string]any{"file": before, "navigation_got": got, "navigation_want": want})
		}
	})
	w.open, w.steps, w.input = true, 0, ""
}

// one step of an open session; returns false when the step could not be carried out
func (w *c18World) step(op string) {
	if w.h == nil {
		return
	}
	before := c18ReadFile(w.path)
	w.guard(func() {
		switch {
		case op == "prev" || op == "next":
			var got, want string
			w.h.override(w.input)
			w.m.input = w.input
			if op == "prev" {
				got, want = w.h.previous(), w.m.prev()
			} else {
				got, want = w.h.next(), w.m.next()
			}
			w.r.Eval()
			w.input = got
			if got != want {
				cls := "nav:previous-returns"
				if op == "next" {
					cls = "nav:next-returns"
				}
				w.violation(cls, map[string]any{"got": got, "want": want, "model_cursor": w.m.cur, "entries": w.m.entries})
				w.m.input = got // keep going on the implementation's answer
			}
			if after := c18ReadFile(w.path); after != before {
				w.violation("nav:file-changed", map[string]any{"before": before, "after": after})
			}
			w.steps++
		case op == "edit:=":
			// edit the line back to the text stored for the entry under the cursor (undoing an earlier edit)
			if w.m.cur < len(w.m.entries) {
				w.input = w.m.entries[w.m.cur]
			}
			w.m.input = w.input
			w.steps++
		case strings.HasPrefix(op, "edit:"):
			w.input = op[5:]
			w.m.input = w.input
			w.steps++
		case op == "abort":
			w.end(before, false, "")
		case op == "accept":
			w.end(before, true, w.input)
		case strings.HasPrefix(op, "accept:"):
			w.input = op[7:]
			w.end(before, true, w.input)
		default:
			panic("c18: unknown op " + op)
		}
	})
}

func (w *c18World) end(before string, submit bool, q string) {
	if submit {
		if err := w.h.append(q); err != nil {
			w.violation("submit:error", map[string]any{"error": err.Error()})
		}
	}
	w.r.Eval()
	after := c18ReadFile(w.path)
	if submit && q != "" {
		want := c18RefFile(w.m.entries, q, w.max)
		if after != want {
			cls := "submit:file-content"
			if len(c18Entries(after)) != len(c18Entries(want)) {
				cls = "submit:cap"
			}
			w.violation(cls, map[string]any{"submitted": q, "file_before": before, "file_after": after, "file_want": want})
		}
	} else if after != before {
		w.violation("submit:file-changed-without-query", map[string]any{"submitted": q, "submit": submit, "file_before": before, "file_after": after})
	}
	w.open, w.h = false, nil
	w.session++
}

// key of the combined (implementation, model) state; budgets are not part of it because the BFS visits
// states in order of steps used, so the first visit has the largest remaining budget
func (w *c18World) key() string {
	var sb strings.Builder
	fmt.Fprintf(&sb, "%v|%q|", w.open, c18ReadFile(w.path))
	if w.open && w.h != nil {
		mk := make([]int, 0, len(w.h.modified))
		for k := range w.h.modified {
			mk = append(mk, k)
		}
		sort.Ints(mk)
		fmt.Fprintf(&sb, "%q|%d|", w.h.lines, w.h.cursor)
		for _, k := range mk {
			fmt.Fprintf(&sb, "%d=%q,", k, w.h.modified[k])
		}
		fmt.Fprintf(&sb, "|%q|%s", w.input, w.m.key())
	}
	return sb.String()
}

// run a trace from the initial file; only the last op reports violations unless all is set
func c18Run(r *kit.Run, path string, max int, init string, trace []string, all bool) *c18World {
	c18Reset(path, init)
	w := &c18World{r: r, path: path, max: max, init: init}
	for i, op := range trace {
		w.trace = trace[:i+1]
		w.check = all || i == len(trace)-1
		if !w.open {
			if op != "open" {
				panic("c18: trace must open a session first")
			}
			w.begin()
		} else {
			w.step(op)
		}
		if w.bad && !all {
			break
		}
	}
	return w
}

type c18Bounds struct {
	maxes    []int
	inits    []string
	sessions int
	steps    int
	edits    []string
	submits  []string
}

func c18GetBounds(r *kit.Run) c18Bounds {
	b := c18Bounds{
		maxes:    []int{1, 2, 3},
		inits:    []string{c18Missing, "", "a", "a\n", "a\nb\n", "a\nb\nc\nd\n", "\n", "a\n\nb\n", " a\nb \n"},
		sessions: 3, steps: 4,
		edits:   []string{"edit:x", "edit:", "edit:="},
		submits: []string{"abort", "accept", "accept:", "accept:a", "accept:b", "accept:a b", "accept:a ", "accept: b"},
	}
	if r.Thorough() {
		b.maxes = []int{1, 2, 3, 4}
		b.inits = append(b.inits, "a\nb", "\n\na\n", "a\nb\nc\nd\ne\n")
		b.steps = 5
		b.edits = []string{"edit:x", "edit:a", "edit:", "edit:="}
	}
	return b
}

func c18Succ(b c18Bounds, w *c18World) []string {
	if !w.open {
		if w.session >= b.sessions {
			return nil
		}
		return []string{"open"}
	}
	var out []string
	if w.steps < b.steps {
		out = append(out, "prev", "next")
		out = append(out, b.edits...)
	}
	return append(out, b.submits...)
}

// ---------------------------------------------------------------- layer: BFS over session chains
// A session starts from nothing but the file (NewHistory builds a fresh History), so the chain BFS is
// organised by session depth: every distinct file content reachable after d sessions is explored as the
// start of session d+1 once, at the smallest d (where the remaining budget is largest). Each such start
// file is first re-produced on the real code by replaying a witness chain from the initial file.
func TestVerif_C18_sessions(t *testing.T) {
	r := kit.Start("C18", "sessions")
	if r == nil {
		t.Skip()
	}
	defer r.Finish()
	path := "c18-history"
	if d := r.Replay(); d != nil {
		max := int(d["max"].(float64))
		init, _ := d["init"].(string)
		var trace []string
		for _, x := range d["trace"].([]any) {
			trace = append(trace, x.(string))
		}
		c18Run(r, path, max, init, trace, true)
		return
	}
	b := c18GetBounds(r)
	r.Param("sessions", fmt.Sprint(b.sessions))
	r.Param("steps_per_session", fmt.Sprint(b.steps))
	r.Param("roots", fmt.Sprint(len(b.maxes)*len(b.inits)))
	unit := 0
	for _, init := range b.inits {
		for _, max := range b.maxes {
			unit++
			if !r.Mine(unit) {
				continue
			}
			if r.ExpiredNow() {
				return
			}
			c18Chain(r, b, path, max, init)
		}
	}
	os.Remove(path)
}

// ---------------------------------------------------------------- layer: deep navigation inside ONE session
// Navigation never touches the file, so the reachable states of one session (cursor, per-entry edits, input) are
// few: BFS with state deduplication up to 9 (quick) / 12 (thorough) steps, far beyond the chain layer's step bound.
func TestVerif_C18_navigation(t *testing.T) {
	r := kit.Start("C18", "navigation")
	if r == nil {
		t.Skip()
	}
	defer r.Finish()
	path := "c18-nav-history"
	b := c18GetBounds(r)
	b.sessions, b.steps = 1, r.Pick(9, 12)
	b.submits = []string{"abort", "accept"}
	unit := 0
	for _, init := range []string{"a", "a\nb\n", "a\nb\nc\n", "a\n\nb\n"} {
		for _, max := range []int{2, 3} {
			unit++
			if !r.Mine(unit) {
				continue
			}
			if r.ExpiredNow() {
				return
			}
			c18Session(r, b, path, max, c18Start{init, nil}, 1)
		}
	}
	os.Remove(path)
}

type c18Start struct {
	file  string   // file content (or c18Missing) at the start of the session
	chain []string // witness: trace from the initial file that produces it
}

func c18Chain(r *kit.Run, b c18Bounds, path string, max int, init string) {
	seen := map[string]bool{}
	frontier := []c18Start{{init, nil}}
	for d := 0; d < b.sessions && len(frontier) > 0; d++ {
		var next []c18Start
		for _, s := range frontier {
			if seen[s.file] {
				continue
			}
			seen[s.file] = true
			if r.ExpiredNow() {
				return
			}
			if len(s.chain) > 0 {
				// the start file is what the real code leaves after the witness chain from the initial file
				w := c18Run(r, path, max, init, s.chain, false)
				if got := c18ReadFile(path); got != s.file || w.bad {
					w.check = true
					w.violation("chain:not-reproducible", map[string]any{"file_got": got, "file_want": s.file})
					continue
				}
			}
			r.Count(fmt.Sprintf("start_files_depth_%d", d))
			for file, tr := range c18Session(r, b, path, max, s, d) {
				next = append(next, c18Start{file, append(append([]string{}, s.chain...), tr...)})
			}
		}
		sort.Slice(next, func(i, j int) bool { return next[i].file < next[j].file })
		frontier = next
	}
}

// exhaustive exploration of one session from a start file; returns end file -> shortest session trace
func c18Session(r *kit.Run, b c18Bounds, path string, max int, s c18Start, depth int) map[string][]string {
	ends := map[string][]string{}
	seen := map[string]bool{}
	queue := [][]string{{"open"}}
	for len(queue) > 0 {
		if r.Expired() {
			return ends
		}
		tr := queue[0]
		queue = queue[1:]
		w := c18Run(r, path, max, s.file, tr, false)
		r.Trans()
		if w.bad {
			if len(s.chain) > 0 {
				r.Note(fmt.Sprintf("a violating session started from a file produced by the chain %q from initial file", s.chain))
			}
			continue // reported; do not explore beyond a disagreement
		}
		k := w.key()
		if seen[k] {
			r.Count("revisits")
			continue
		}
		seen[k] = true
		r.State()
		if !w.open {
			file := c18ReadFile(path)
			if _, ok := ends[file]; !ok {
				ends[file] = tr
			}
			r.Outcome(fmt.Sprintf("max=%d file=%q", max, file))
			if len(r.Samples) < 2 && depth == 1 && len(tr) > 4 && file != s.file {
				r.Sample(map[string]any{"max": max, "file_at_session_start": s.file, "produced_by": s.chain, "session": tr, "file_after": file})
			}
			continue
		}
		if len(w.m.entries) > 0 || len(w.h.modified) > 0 || w.m.shown[len(w.m.entries)] != "" {
			r.NT()
		}
		for _, op := range c18Succ(b, w) {
			queue = append(queue, append(append([]string{}, tr...), op))
		}
	}
	return ends
}

// ---------------------------------------------------------------- layer: --history / --history-size wiring
// The same property seen from the command line: whichever way and order the two options are written,
// the session loads the file and the cap is the given size.
func TestVerif_C18_options(t *testing.T) {
	r := kit.Start("C18", "options")
	if r == nil {
		t.Skip()
	}
	defer r.Finish()
	path := "c18-opt-history"
	b := c18GetBounds(r)
	forms := func(max int) [][]string {
		n := fmt.Sprint(max)
		return [][]string{
			{"--history", path, "--history-size", n},
			{"--history-size", n, "--history", path},
			{"--history=" + path, "--history-size=" + n},
			{"--history-size=" + n, "--history=" + path},
			{"--history-size", "7", "--history", path, "--history-size", n},
			{"--history", path + "-other", "--history-size", n, "--history", path},
		}
	}
	run := func(max int, init string, fi int, q string) {
		args := forms(max)[fi]
		c18Reset(path, init)
		detail := func() map[string]any {
			return map[string]any{"args": args, "max": max, "init": init, "form": fi, "submit": q}
		}
		r.Guard(detail, func() {
			opts, err := ParseOptions(false, args)
			r.Eval()
			if err != nil || opts == nil || opts.History == nil {
				d := detail()
				d["error"] = fmt.Sprint(err)
				r.Violation("options:no-history", d)
				return
			}
			content := init
			if init == c18Missing {
				content = ""
			}
			m := c18NewModel(content)
			h := opts.History
			for i := 0; i < len(m.entries)+1; i++ {
				h.override(m.input)
				got, want := h.previous(), m.prev()
				if got != want {
					d := detail()
					d["got"], d["want"] = got, want
					r.Violation("options:load", d)
					return
				}
			}
			h.append(q)
			got, want := c18ReadFile(path), c18RefFile(m.entries, q, max)
			if got != want {
				d := detail()
				d["file_after"], d["file_want"] = got, want
				r.Violation("options:cap", d)
				return
			}
			if len(m.entries)+1 > max {
				r.NT()
			}
		})
	}
	if d := r.Replay(); d != nil {
		init, _ := d["init"].(string)
		q, _ := d["submit"].(string)
		run(int(d["max"].(float64)), init, int(d["form"].(float64)), q)
		return
	}
	i := 0
	for _, init := range b.inits {
		for _, max := range b.maxes {
			for fi := range forms(max) {
				for _, q := range []string{"q", "a b"} {
					i++
					if !r.Mine(i) {
						continue
					}
					run(max, init, fi, q)
				}
			}
		}
	}
	if r.Shard == 0 {
		r.Sample(map[string]any{"args": forms(2)[4], "init": "a\nb\nc\nd\n", "submit": "q", "file_want": c18RefFile([]string{"a", "b", "c", "d"}, "q", 2)})
	}
	os.Remove(path)
	os.Remove(path + "-other")
}
