package fzf

// C08 layer (b): the matcher's request mailbox under every schedule (Engine B).
// A coordinator stub issues a script of 2-3 Matcher.Reset calls (cancel/retry x same/new query x same/grown
// snapshot x final/non-final) against the real Matcher.Loop with 2 scan partitions. At quiescence the last
// published result must be the sequential result of the LAST issued request.

import (
	"fmt"
	"os"
	"sort"
	"strings"
	"testing"

	"github.com/junegunn/fzf/src/util"
	"github.com/junegunn/fzf/src/util/vsched"
	kit "github.com/junegunn/fzf/src/verifkit"
)

type c08bReq struct {
	cancel bool
	query  string
	grow   bool // more input arrived before this request
	final  bool
}

func (q c08bReq) String() string {
	k := "retry"
	if q.cancel {
		k = "cancel"
	}
	return fmt.Sprintf("%s(%q grow=%v final=%v)", k, q.query, q.grow, q.final)
}

// worker interleavings inside one scan are explored by C13 / C04; the mailbox scenario keeps one worker so that
// the deviation budget goes to coordinator / Loop / scan orderings
var c08bPartitions = 1

func c08bBody(script []c08bReq) func() string {
	return func() string {
		e := schedNewEnv()
		n := 0
		push := func(k int) {
			for i := 0; i < k; i++ {
				s := "x"
				if n%3 == 0 {
					s = "a"
				}
				e.cl.Push([]byte(fmt.Sprintf("%s%d", s, n)))
				n++
			}
		}
		m := e.matcher(true, c08bPartitions)
		vsched.Go(m.Loop)
		push(chunkSize + 1)
		var lastSnap []*Chunk
		for _, rq := range script {
			if rq.grow {
				push(chunkSize - 1)
			}
			lastSnap, _, _ = e.cl.Snapshot(0)
			m.Reset(lastSnap, []rune(rq.query), rq.cancel, rq.final, true, revision{})
		}
		vsched.WaitQuiescent()
		var last *Merger
		e.eb.Wait(func(ev *util.Events) {
			if v, ok := (*ev)[EvtSearchFin]; ok {
				last = v.(*Merger)
			}
			ev.Clear()
		})
		m.Stop()
		lr := script[len(script)-1]
		want := schedRefFilter(lastSnap, lr.query)
		if last == nil {
			return "BAD nothing published"
		}
		got := schedMergerTexts(last)
		sort.Strings(got)
		sort.Strings(want)
		if last.final != lr.final || strings.Join(got, ",") != strings.Join(want, ",") {
			return fmt.Sprintf("BAD published final=%v count=%d; last request %s wants final=%v count=%d", last.final, len(got), lr, lr.final, len(want))
		}
		return fmt.Sprintf("ok final=%v count=%d", last.final, len(got))
	}
}

func c08bScripts(thorough bool) [][]c08bReq {
	var all []c08bReq
	for _, cancel := range []bool{true, false} {
		for _, q := range []string{"a", "x"} {
			for _, grow := range []bool{false, true} {
				for _, final := range []bool{false, true} {
					all = append(all, c08bReq{cancel, q, grow, final})
				}
			}
		}
	}
	var out [][]c08bReq
	firsts := []c08bReq{{true, "a", false, false}, {false, "a", false, false}}
	for _, f := range firsts {
		for _, s := range all {
			out = append(out, []c08bReq{f, s})
		}
	}
	// three requests: the D4 shape (cancel, then retry on grown input, final) plus one more of each kind
	thirds := []c08bReq{{true, "x", false, true}, {false, "a", true, true}, {false, "a", false, true}, {true, "a", true, false}}
	for _, f := range firsts {
		for i, s := range all {
			if !thorough && i%3 != 0 {
				continue
			}
			for _, t := range thirds {
				out = append(out, []c08bReq{f, s, t})
			}
		}
	}
	return out
}

func TestVerif_C08_mailbox(t *testing.T) {
	r := kit.Start("C08", "mailbox-schedules")
	if r == nil {
		t.Skip()
	}
	defer r.Finish()
	r.Param("chunkSize", fmt.Sprint(chunkSize))
	scripts := c08bScripts(r.Thorough())
	r.Param("scripts", fmt.Sprint(len(scripts)))
	bound := schedBound(r, 2, 3)
	shard, n := r.Shard, r.NShards
	for i, sc := range scripts {
		name := fmt.Sprintf("script%03d %v", i, sc)
		if d := r.Replay(); d != nil {
			if s, _ := d["scenario"].(string); s != name {
				continue
			}
		} else if i%n != shard {
			continue
		}
		if only := os.Getenv("VERIF_ONLY"); only != "" && only != fmt.Sprint(i) {
			continue
		}
		if r.ExpiredNow() {
			r.Cap("time")
			break
		}
		// each script is explored completely by the shard that owns it
		r.Shard, r.NShards = 0, 1
		schedExplore(r, schedScenario{name, c08bBody(sc), schedBadPrefix}, bound)
		r.Shard, r.NShards = shard, n
	}
}
