package fzf

// C06 layer (b): the reader, its event poller and a snapshotting consumer under every schedule (Engine B).

import (
	"fmt"
	"strings"
	"testing"

	"github.com/junegunn/fzf/src/util"
	"github.com/junegunn/fzf/src/util/vsched"
	kit "github.com/junegunn/fzf/src/verifkit"
)

func c06bBody(parts [][]byte, want []string) func() string {
	return func() string {
		e := schedNewEnv()
		r := NewReader(func(b []byte) bool { return e.cl.Push(b) }, e.eb, nil, false, true)
		vsched.Go(func() {
			r.startEventPoller()
			ps := make([][]byte, len(parts))
			for i := range parts {
				ps[i] = append([]byte{}, parts[i]...)
			}
			r.feed(&c13Reads{parts: ps})
			r.fin(true)
		})
		var seen []string
		fin := false
		last := 0
		for !fin {
			e.eb.Wait(func(ev *util.Events) {
				_, isNew := (*ev)[EvtReadNew]
				_, isFin := (*ev)[EvtReadFin]
				if isNew || isFin {
					snap, c, _ := e.cl.Snapshot(0)
					if c < last {
						seen = append(seen, "BAD count decreased")
					}
					last = c
					k := 0
					for _, ch := range snap {
						for i := 0; i < ch.count; i++ {
							if k >= len(want) || ch.items[i].text.ToString() != want[k] {
								seen = append(seen, fmt.Sprintf("BAD snapshot item %d is %q", k, ch.items[i].text.ToString()))
							}
							k++
						}
					}
					if isFin {
						fin = true
						if c != len(want) {
							seen = append(seen, fmt.Sprintf("BAD at end of input the snapshot holds %d of %d records", c, len(want)))
						}
						seen = append(seen, fmt.Sprintf("fin%d", c))
					} else {
						seen = append(seen, fmt.Sprintf("new%d", c))
					}
				}
				ev.Clear()
			})
		}
		return strings.Join(seen, ",")
	}
}

func TestVerif_C06_reader_schedules(t *testing.T) {
	r := kit.Start("C06", "reader-schedules")
	if r == nil {
		t.Skip()
	}
	defer r.Finish()
	r.Param("chunkSize", fmt.Sprint(chunkSize))
	scs := []struct {
		name  string
		parts []string
		want  []string
	}{
		{"two-reads-split-record", []string{"a\nb", "\nc\n"}, []string{"a", "b", "c"}},
		{"three-reads-empty-records", []string{"\n", "x\n\n", "y"}, []string{"", "x", "", "y"}},
		{"one-read-crossing-a-chunk", []string{"1\n2\n3\n4\n5\n6\n"}, []string{"1", "2", "3", "4", "5", "6"}},
	}
	for _, sc := range scs {
		var parts [][]byte
		for _, p := range sc.parts {
			parts = append(parts, []byte(p))
		}
		schedExplore(r, schedScenario{sc.name, c06bBody(parts, sc.want), schedBadPrefix}, schedBound(r, 3, 4))
	}
}
