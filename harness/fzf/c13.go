package fzf

// C13 - loading and searching run concurrently without interfering.
// Scenario bodies executed under every schedule with at most B deviations (controlled scheduler).

import (
	"fmt"
	"io"
	"sort"
	"strings"
	"testing"

	"github.com/junegunn/fzf/src/algo"
	"github.com/junegunn/fzf/src/util"
	"github.com/junegunn/fzf/src/util/vsched"
	kit "github.com/junegunn/fzf/src/verifkit"
)

// S1: the loader appends while the searcher snapshots and scans twice. Every published result must be the
// sequential filter of exactly the first `count` records of its snapshot, with their original content.
func c13S1(tail int) func() string {
	return func() string {
		e := schedNewEnv()
		m := e.matcher(false, 2) // unsorted: order == input order
		total := chunkSize + 2
		done := make(chan bool, 1)
		vsched.Go(func() {
			for i := 0; i < total; i++ {
				e.cl.Push([]byte(fmt.Sprintf("a%d", i)))
			}
			vsched.Send(done, true)
		})
		var outs []string
		for round := 0; round < 2; round++ {
			snap, count, _ := e.cl.Snapshot(tail)
			merger, cancelled := m.scan(MatchRequest{chunks: snap, pattern: e.pb([]rune("a"))})
			if cancelled {
				outs = append(outs, "BAD cancelled without a reset")
				continue
			}
			got := schedMergerTexts(merger)
			// the snapshot must be the last min(tail, n) of a prefix a0..a(n-1) of the stream
			ok := len(got) == count && merger.Length() == count
			first := -1
			for i, s := range got {
				var k int
				if _, err := fmt.Sscanf(s, "a%d", &k); err != nil {
					ok = false
					break
				}
				if i == 0 {
					first = k
				} else if k != first+i {
					ok = false
				}
			}
			if count > 0 && tail == 0 && first != 0 {
				ok = false
			}
			if tail > 0 && count > tail {
				ok = false
			}
			if !ok {
				outs = append(outs, fmt.Sprintf("BAD count=%d got=%v", count, got))
			} else {
				outs = append(outs, fmt.Sprintf("ok[%d..+%d]", first, count))
			}
		}
		vsched.Recv(done)
		// after the loader is done: every record is present, unaltered
		snap, count, _ := e.cl.Snapshot(tail)
		all := schedRefFilter(snap, "a")
		wantN, base := total, 0
		if tail > 0 && tail < total {
			wantN, base = tail, total-tail
		}
		if count != wantN || len(all) != wantN {
			outs = append(outs, fmt.Sprintf("BAD final count=%d", count))
		}
		for i, s := range all {
			if s != fmt.Sprintf("a%d", base+i) {
				outs = append(outs, fmt.Sprintf("BAD item %d changed to %q", base+i, s))
			}
		}
		return strings.Join(outs, " ")
	}
}

// S1-old: an OLDER snapshot stays frozen while the loader appends and newer snapshots trim under --tail.
// The tail spans three chunks, so chunks that are in the middle of an older snapshot (shared by pointer) become
// the trimmed first chunk of a newer one.
func c13S1Old() string {
	e := schedNewEnv()
	tail := 2*chunkSize + 1
	total := 4*chunkSize + 2
	first := 3*chunkSize + 1
	for i := 0; i < first; i++ {
		e.cl.Push([]byte(fmt.Sprintf("a%d", i)))
	}
	done := make(chan bool, 1)
	vsched.Go(func() {
		for i := first; i < total; i++ {
			e.cl.Push([]byte(fmt.Sprintf("a%d", i)))
		}
		vsched.Send(done, true)
	})
	texts := func(snap []*Chunk) string {
		var sb strings.Builder
		for _, ch := range snap {
			for i := 0; i < ch.count; i++ {
				sb.WriteString(ch.items[i].text.ToString())
				sb.WriteByte(' ')
			}
		}
		return sb.String()
	}
	var snaps [][]*Chunk
	var frozen []string
	var outs []string
	for round := 0; round < 3; round++ {
		snap, count, _ := e.cl.Snapshot(tail)
		snaps = append(snaps, snap)
		frozen = append(frozen, texts(snap))
		outs = append(outs, fmt.Sprintf("n%d", count))
		for k := range snaps {
			if got := texts(snaps[k]); got != frozen[k] {
				outs = append(outs, fmt.Sprintf("BAD snapshot %d changed after snapshot %d: %q -> %q", k, round, frozen[k], got))
			}
		}
	}
	vsched.Recv(done)
	snap, _, _ := e.cl.Snapshot(tail)
	_ = snap
	for k := range snaps {
		if got := texts(snaps[k]); got != frozen[k] {
			outs = append(outs, fmt.Sprintf("BAD snapshot %d changed at the end: %q -> %q", k, frozen[k], got))
		}
	}
	return strings.Join(outs, " ")
}

// S1-two-loaders: the built-in walker pushes from several goroutines at once; the item builder of core.go numbers the
// items with an unsynchronised counter and relies on Push to serialise it: the k-th item must have ordinal k.
func c13S1TwoLoaders() string {
	e := schedNewEnv()
	done := make(chan bool, 2)
	for w := 0; w < 2; w++ {
		w := w
		vsched.Go(func() {
			for i := 0; i < 3; i++ {
				e.cl.Push([]byte(fmt.Sprintf("w%d-%d", w, i)))
			}
			vsched.Send(done, true)
		})
	}
	vsched.Recv(done)
	vsched.Recv(done)
	snap, count, _ := e.cl.Snapshot(0)
	if count != 6 {
		return fmt.Sprintf("BAD count %d", count)
	}
	k := int32(0)
	for _, ch := range snap {
		for i := 0; i < ch.count; i++ {
			if ch.items[i].Index() != k {
				return fmt.Sprintf("BAD item at position %d has ordinal %d", k, ch.items[i].Index())
			}
			k++
		}
	}
	return "ordinals-follow-positions"
}

// S2: a canceller may set reqReset at any point of a scan: the scan is either cancelled (and publishes
// nothing) or complete. Never a partial result.
func c13S2() string {
	e := schedNewEnv()
	for i := 0; i < 3*chunkSize+1; i++ {
		e.cl.Push([]byte(fmt.Sprintf("a%d", i)))
	}
	m := e.matcher(false, 2)
	snap, count, _ := e.cl.Snapshot(0)
	done := make(chan bool, 1)
	vsched.Go(func() {
		m.reqBox.Set(reqReset, MatchRequest{})
		vsched.Send(done, true)
	})
	merger, cancelled := m.scan(MatchRequest{chunks: snap, pattern: e.pb([]rune("a"))})
	vsched.Recv(done)
	if cancelled {
		if merger != nil {
			return "BAD cancelled with non-nil merger"
		}
		return "cancelled"
	}
	if merger.Length() != count {
		return fmt.Sprintf("BAD partial result published: %d of %d", merger.Length(), count)
	}
	return "complete"
}

// S2L: the same through Matcher.Loop: a search superseded by a reset never publishes; the last request wins.
func c13S2Loop() string {
	e := schedNewEnv()
	for i := 0; i < 2*chunkSize+1; i++ {
		s := "x"
		if i%3 == 0 {
			s = "a"
		}
		e.cl.Push([]byte(fmt.Sprintf("%s%d", s, i)))
	}
	m := e.matcher(true, 2)
	vsched.Go(m.Loop)
	snap, _, _ := e.cl.Snapshot(0)
	m.Reset(snap, []rune("a"), true, true, true, revision{})
	m.Reset(snap, []rune("x"), true, true, true, revision{})
	vsched.WaitQuiescent()
	var published []string
	e.eb.Wait(func(ev *util.Events) {
		if v, ok := (*ev)[EvtSearchFin]; ok {
			mg := v.(*Merger)
			published = append(published, fmt.Sprintf("%s:%d", mg.pattern.AsString(), mg.Length()))
		}
		ev.Clear()
	})
	m.Stop()
	wantX := len(schedRefFilter(snap, "x"))
	if len(published) != 1 || published[0] != fmt.Sprintf("x:%d", wantX) {
		return fmt.Sprintf("BAD last published=%v want x:%d", published, wantX)
	}
	return "last-request-published"
}

// S2-slab: each scan partition owns one scratch slab; a superseded scan must not leave workers behind that still use
// it when the next scan starts. The fuzzy matcher is wrapped so that "inside the matcher with slab S" spans a
// scheduling point; two threads inside with the same slab at once is the shared-memory race the property excludes.
func c13S2Slab() string {
	e := schedNewEnv()
	inUse := map[*util.Slab]int{}
	overlap := 0
	wrapped := func(cs bool, nz bool, fwd bool, in *util.Chars, pat []rune, wp bool, slab *util.Slab) (algo.Result, *[]int) {
		inUse[slab]++
		if slab != nil && inUse[slab] > 1 {
			overlap++
		}
		vsched.Yield("in-matcher")
		res, pos := algo.FuzzyMatchV2(cs, nz, fwd, in, pat, wp, slab)
		inUse[slab]--
		return res, pos
	}
	pb := func(q []rune) *Pattern {
		return BuildPattern(e.cache, e.pc, true, wrapped, true, CaseSmart, true, true, false, false, nil, Delimiter{}, revision{}, q, nil)
	}
	for i := 0; i < 2*chunkSize; i++ {
		e.cl.Push([]byte(fmt.Sprintf("a%d", i)))
	}
	m := NewMatcher(e.cache, pb, false, false, e.eb, revision{})
	m.partitions = 1
	m.slab = make([]*util.Slab, 1)
	vsched.Go(m.Loop)
	snap, _, _ := e.cl.Snapshot(0)
	m.Reset(snap, []rune("a"), true, true, false, revision{})
	m.Reset(snap, []rune("a0"), true, true, false, revision{})
	vsched.WaitQuiescent()
	m.Stop()
	if overlap > 0 {
		return fmt.Sprintf("BAD two workers inside the matcher with the same scratch slab (%d times)", overlap)
	}
	return "slabs-never-shared"
}

// S3: partitions race on the shared ChunkCache across consecutive scans of overlapping queries.
func c13S3() string {
	e := schedNewEnv()
	pool := []string{"zz", "ab", "zz", "a", "zz", "zz", "ba", "zz", "zz", "zz", "xaxb", "zz", "zz", "zz", "zz", "zz", "zz", "zz", "zz", "zz", "zz", "zz", "zz", "zz", "zz"}
	for i := 0; i < 2*chunkSize+3; i++ {
		e.cl.Push([]byte(pool[i%len(pool)]))
	}
	snap, _, _ := e.cl.Snapshot(0)
	m := e.matcher(false, 2)
	var outs []string
	for _, q := range []string{"a", "ab", "a"} {
		mg, _ := m.scan(MatchRequest{chunks: snap, pattern: e.pb([]rune(q))})
		got := schedMergerTexts(mg)
		want := schedRefFilter(snap, q)
		if strings.Join(got, ",") != strings.Join(want, ",") {
			outs = append(outs, fmt.Sprintf("BAD q=%s got=%d want=%d", q, len(got), len(want)))
		} else {
			outs = append(outs, fmt.Sprintf("ok%d", len(got)))
		}
	}
	// nothing may be cached for the partial last chunk
	e.cache.mutex.Lock()
	for ch, qc := range e.cache.cache {
		if !ch.IsFull() && len(*qc) > 0 {
			outs = append(outs, "BAD cache entry for a chunk that is not full")
		}
	}
	e.cache.mutex.Unlock()
	return strings.Join(outs, " ")
}

// S4: two producers, one consumer on an EventBox: both events are seen, never a lost wake-up or deadlock.
func c13S4() string {
	eb := util.NewEventBox()
	eb.Unwatch(util.EventType(7))
	vsched.Go(func() { eb.Set(util.EventType(1), "x") })
	vsched.Go(func() { eb.Set(util.EventType(7), "ignored"); eb.Set(util.EventType(2), "y") })
	seen := map[int]bool{}
	rounds := 0
	for !(seen[1] && seen[2]) {
		rounds++
		eb.Wait(func(ev *util.Events) {
			for k := range *ev {
				seen[int(k)] = true
			}
			ev.Clear()
		})
	}
	keys := []int{}
	for k := range seen {
		keys = append(keys, k)
	}
	sort.Ints(keys)
	return fmt.Sprintf("seen=%v rounds=%d", keys, rounds)
}

type c13Reads struct {
	parts [][]byte
	i     int
}

func (r *c13Reads) Read(p []byte) (int, error) {
	if r.i >= len(r.parts) {
		return 0, io.EOF
	}
	n := copy(p, r.parts[r.i])
	r.i++
	return n, nil
}

// S5: reader + its event poller + a consumer: after EvtReadFin the snapshot holds every record, every
// snapshot is a prefix, no deadlock.
func c13S5() string {
	e := schedNewEnv()
	r := NewReader(func(b []byte) bool { return e.cl.Push(b) }, e.eb, nil, false, true)
	vsched.Go(func() {
		r.startEventPoller()
		r.feed(&c13Reads{parts: [][]byte{[]byte("a\nb"), []byte("\nc\n")}})
		r.fin(true)
	})
	var seen []string
	fin := false
	lastCount := 0
	for !fin {
		e.eb.Wait(func(ev *util.Events) {
			// the coordinator handles a batch in any order: the oracle is order-insensitive
			_, isNew := (*ev)[EvtReadNew]
			_, isFin := (*ev)[EvtReadFin]
			if isNew || isFin {
				snap, c, _ := e.cl.Snapshot(0)
				texts := schedRefFilter(snap, "")
				_ = texts
				if c < lastCount {
					seen = append(seen, "BAD count decreased")
				}
				lastCount = c
				want := []string{"a", "b", "c"}
				k := 0
				for _, ch := range snap {
					for i := 0; i < ch.count; i++ {
						if k >= 3 || ch.items[i].text.ToString() != want[k] {
							seen = append(seen, "BAD snapshot is not a prefix of the stream")
						}
						k++
					}
				}
				if isFin {
					seen = append(seen, fmt.Sprintf("fin%d", c))
					fin = true
				} else {
					seen = append(seen, fmt.Sprintf("new%d", c))
				}
			}
			ev.Clear()
		})
	}
	if seen[len(seen)-1] != "fin3" {
		return "BAD " + strings.Join(seen, ",")
	}
	return strings.Join(seen, ",")
}

func c13Run(t *testing.T, layer string, scs []schedScenario, q, th int) {
	r := kit.Start("C13", layer)
	if r == nil {
		t.Skip()
	}
	defer r.Finish()
	r.Param("chunkSize", fmt.Sprint(chunkSize))
	for _, sc := range scs {
		schedExplore(r, sc, schedBound(r, q, th))
	}
}

func TestVerif_C13_S1(t *testing.T) {
	c13Run(t, "S1-snapshot-isolation", []schedScenario{{"S1", c13S1(0), schedBadPrefix}, {"S1-tail", c13S1(3), schedBadPrefix}, {"S1-old-snapshots", c13S1Old, schedBadPrefix}, {"S1-two-loaders", c13S1TwoLoaders, schedBadPrefix}}, 2, 3)
}
func TestVerif_C13_S2(t *testing.T) {
	c13Run(t, "S2-cancellation", []schedScenario{{"S2", c13S2, schedBadPrefix}, {"S2-loop", c13S2Loop, schedBadPrefix}, {"S2-slab", c13S2Slab, schedBadPrefix}}, 2, 3)
}
func TestVerif_C13_S3(t *testing.T) {
	c13Run(t, "S3-cache", []schedScenario{{"S3", c13S3, schedBadPrefix}}, 2, 3)
}
func TestVerif_C13_S4(t *testing.T) {
	c13Run(t, "S4-eventbox", []schedScenario{{"S4", c13S4, schedBadPrefix}}, 4, 6)
}
func TestVerif_C13_S5(t *testing.T) {
	c13Run(t, "S5-reader-poller", []schedScenario{{"S5", c13S5, schedBadPrefix}}, 3, 4)
}
