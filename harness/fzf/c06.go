package fzf

// C06 - every input record becomes exactly one item, in order, unaltered.
//
// Environment model: an io.Reader that returns (n>0, nil) any number of times, may return (0, nil) a
// bounded number of times, and ends with (0, io.EOF) or (0, some error). (n>0, io.EOF) is excluded on
// purpose: no descriptor fzf reads from produces it, and the property quantifies over the ways the OS
// may cut a stream.
// Reference: records = split(stream, delimiter), plus the unterminated rest iff it is non-empty; empty
// records are kept. Records are compared AFTER the last read, so an item whose bytes (it aliases the
// read slab) were overwritten later is caught, and classified apart from a wrong push.

import (
	"bytes"
	"errors"
	"fmt"
	"io"
	"os"
	"testing"

	"github.com/junegunn/fzf/src/util"
	kit "github.com/junegunn/fzf/src/verifkit"
)

// ---------------------------------------------------------------- scripted reader with recorded choices

const c06End = -1

// c06Script answers Read calls from a list of choices; beyond the list it takes the first option
// (fill the offered buffer / end of stream) and records what it took, so that the explorer can
// backtrack over every answer an OS could give.
type c06Script struct {
	data    []byte
	pos     int
	choices []int // n per call; c06End = the terminal (0, err)
	offered []int // len(p) per call, for the violation detail
	step    int
	zeros   int
	endErr  error
	after   int // Read calls after the terminal answer (must stay 0)
	ended   bool
}

func (s *c06Script) reset(data []byte, prefix []int, endErr error) {
	s.data, s.pos, s.choices, s.step, s.zeros, s.endErr, s.after, s.ended = data, 0, prefix, 0, 0, endErr, 0, false
	s.offered = s.offered[:0]
}

func (s *c06Script) Read(p []byte) (int, error) {
	if s.ended {
		s.after++
		return 0, s.endErr
	}
	rem := len(s.data) - s.pos
	maxN := len(p)
	if rem < maxN {
		maxN = rem
	}
	var n int
	if s.step < len(s.choices) {
		n = s.choices[s.step]
	} else {
		n = maxN
		if rem == 0 || maxN == 0 {
			n = c06End
			if rem > 0 {
				n = 0 // a zero-length buffer was offered although data remains: answer (0, nil)
			}
		}
		s.choices = append(s.choices, n)
	}
	s.offered = append(s.offered, len(p))
	s.step++
	if n == c06End {
		s.ended = true
		return 0, s.endErr
	}
	if n == 0 {
		s.zeros++
		return 0, nil
	}
	copy(p, s.data[s.pos:s.pos+n])
	s.pos += n
	return n, nil
}

// next option after n at one call: maxN, maxN-1, .., 1, then 0 (an empty read, if the budget allows);
// at the end of the data: end, then 0.
func c06Next(n int, zeroOK bool) (int, bool) {
	switch {
	case n > 1:
		return n - 1, true
	case n == 1 || n == c06End:
		if zeroOK {
			return 0, true
		}
	}
	return 0, false
}

// c06Explore runs f for every script: all cuts of data into reads no longer than the buffer the code
// offers, with up to zmax interposed (0, nil) reads.
func c06Explore(s *c06Script, data []byte, zmax int, endErr error, f func() bool) {
	prefix := make([]int, 0, 32)
	for {
		s.reset(data, prefix, endErr)
		if !f() {
			return
		}
		ch := s.choices[:s.step]
		i := len(ch) - 1
		for ; i >= 0; i-- {
			z := 0
			for _, c := range ch[:i] {
				if c == 0 {
					z++
				}
			}
			if nx, ok := c06Next(ch[i], z < zmax); ok {
				ch[i] = nx
				prefix = ch[:i+1]
				break
			}
		}
		if i < 0 {
			return
		}
	}
}

func c06Want(data []byte, delim byte) [][]byte {
	var want [][]byte
	rest := data
	for {
		i := bytes.IndexByte(rest, delim)
		if i < 0 {
			break
		}
		want = append(want, rest[:i])
		rest = rest[i+1:]
	}
	if len(rest) > 0 {
		want = append(want, rest)
	}
	return want
}

// c06Sink is the pusher: keeps the slices it was given and a copy of what they held at push time
type c06Sink struct {
	got  [][]byte
	copy []byte
	lens []int
}

func (k *c06Sink) reset() { k.got, k.copy, k.lens = k.got[:0], k.copy[:0], k.lens[:0] }
func (k *c06Sink) push(b []byte) bool {
	k.got = append(k.got, b)
	k.copy = append(k.copy, b...)
	k.lens = append(k.lens, len(b))
	return true
}

// verdict: "" or the violation class
func (k *c06Sink) verdict(want [][]byte) string {
	ok := len(k.got) == len(want)
	if ok {
		for i := range want {
			if !bytes.Equal(k.got[i], want[i]) {
				ok = false
				break
			}
		}
	}
	if ok {
		return ""
	}
	// were the records right when they were pushed?
	atPush := len(k.lens) == len(want)
	off := 0
	for i := 0; atPush && i < len(want); i++ {
		if !bytes.Equal(k.copy[off:off+k.lens[i]], want[i]) {
			atPush = false
		}
		off += k.lens[i]
	}
	switch {
	case atPush:
		return "record-overwritten-after-push"
	case len(k.lens) < len(want):
		return "records-lost"
	case len(k.lens) > len(want):
		return "records-invented"
	}
	return "record-content"
}

func c06Feed(rd *Reader, src io.Reader) (perr any) {
	defer func() {
		if x := recover(); x != nil {
			perr = x
		}
	}()
	rd.feed(src)
	return nil
}

func c06Brief(bs [][]byte) []string {
	out := []string{}
	for i, b := range bs {
		if i == 12 {
			out = append(out, "...")
			break
		}
		if len(b) > 24 {
			out = append(out, fmt.Sprintf("%q..(%d bytes)", b[:12], len(b)))
		} else {
			out = append(out, fmt.Sprintf("%q", b))
		}
	}
	return out
}

var c06ErrBroken = errors.New("read error")

// the first 24 entries (a reader that is offered empty buffers answers 100 times)
func c06Cap(l []int) []int {
	if len(l) > 24 {
		l = l[:24]
	}
	return append([]int{}, l...)
}

// []byte would be rendered as base64 in the JSON detail
func c06Ints(b []byte) []int {
	out := make([]int, len(b))
	for i, v := range b {
		out[i] = int(v)
	}
	return out
}

// ---------------------------------------------------------------- layer: Reader.feed, scaled buffers, every delivery
func TestVerif_C06_feed(t *testing.T) {
	layer := os.Getenv("VERIF_LAYER") // feed-scaled-<buffer>-<slab>: one binary per pair of constants
	if layer == "" {
		layer = "feed-scaled"
	}
	r := kit.Start("C06", layer)
	if r == nil {
		t.Skip()
	}
	defer r.Finish()
	r.Param("readerBufferSize", fmt.Sprint(readerBufferSize))
	r.Param("readerSlabSize", fmt.Sprint(readerSlabSize))
	if d := r.Replay(); d != nil {
		c06ReplayFeed(r, d)
		return
	}
	if readerSlabSize > 64 {
		r.Note("the buffer constants are not scaled in this binary: layer skipped")
		r.Cap("unscaled-constants")
		return
	}
	maxLen := r.Pick(8, 9)
	zmax := r.Pick(1, 2)
	r.Param("max_stream_len", fmt.Sprint(maxLen))
	r.Param("max_empty_reads", fmt.Sprint(zmax))
	var sink c06Sink
	var script c06Script
	idx := 0
	for _, delimNil := range []bool{false, true} {
		delim, other := byte('\n'), byte(0)
		if delimNil {
			delim, other = 0, '\n'
		}
		// the second content symbol is the OTHER delimiter: under --read0 a newline is content and vice versa
		kit.ByteStrings([]byte{'a', other, delim}, 0, maxLen, func(st []byte) bool {
			idx++
			if !r.Mine(idx) {
				return true
			}
			if r.ExpiredNow() {
				return false
			}
			data := append([]byte(nil), st...)
			want := c06Want(data, delim)
			r.State()
			for _, endErr := range []error{io.EOF, c06ErrBroken} {
				c06Explore(&script, data, zmax, endErr, func() bool {
					sink.reset()
					rd := NewReader(sink.push, nil, nil, delimNil, false)
					perr := c06Feed(rd, &script)
					r.Eval()
					r.Trans()
					if script.step > 2 {
						r.NT() // the stream arrived in more than one non-terminal answer
					}
					if len(data) > readerSlabSize {
						r.Count("runs_with_slab_rotation")
					}
					cls := ""
					if perr != nil {
						cls = "panic"
					} else if cls = sink.verdict(want); cls == "" && script.pos != len(data) {
						cls = "stopped-reading-early"
					} else if cls == "" && script.after > 0 {
						cls = "read-after-end"
					}
					if cls != "" {
						r.Violation(cls, map[string]any{"stream": fmt.Sprintf("%q", data), "bytes": c06Ints(data), "read0": delimNil,
							"reads": c06Cap(script.choices[:script.step]), "offered": c06Cap(script.offered),
							"end": fmt.Sprint(endErr), "got": c06Brief(sink.got), "want": c06Brief(want), "panic": fmt.Sprint(perr),
							"readerBufferSize": readerBufferSize, "readerSlabSize": readerSlabSize})
					}
					return true
				})
			}
			if idx%1777 == 5 {
				r.Sample(map[string]any{"stream": fmt.Sprintf("%q", data), "read0": delimNil, "last_script(-1=end)": append([]int{}, script.choices[:script.step]...),
					"records": c06Brief(want)})
			}
			return true
		})
	}
}

func c06ReplayFeed(r *kit.Run, d map[string]any) {
	var data []byte
	if l, ok := d["bytes"].([]any); ok {
		for _, v := range l {
			f, _ := v.(float64)
			data = append(data, byte(f))
		}
	}
	var reads []int
	if l, ok := d["reads"].([]any); ok {
		for _, v := range l {
			f, _ := v.(float64)
			reads = append(reads, int(f))
		}
	}
	delimNil, _ := d["read0"].(bool)
	delim := byte('\n')
	if delimNil {
		delim = 0
	}
	endErr := error(io.EOF)
	if s, _ := d["end"].(string); s != "EOF" {
		endErr = c06ErrBroken
	}
	var sink c06Sink
	var script c06Script
	script.reset(data, reads, endErr)
	rd := NewReader(sink.push, nil, nil, delimNil, false)
	perr := c06Feed(rd, &script)
	r.Eval()
	want := c06Want(data, delim)
	cls := sink.verdict(want)
	if perr != nil {
		cls = "panic"
	}
	if cls != "" {
		r.Violation(cls, map[string]any{"stream": fmt.Sprintf("%q", data), "bytes": c06Ints(data), "read0": delimNil, "reads": script.choices[:script.step],
			"end": fmt.Sprint(endErr), "got": c06Brief(sink.got), "want": c06Brief(want), "panic": fmt.Sprint(perr),
			"readerBufferSize": readerBufferSize, "readerSlabSize": readerSlabSize})
	}
}

// ---------------------------------------------------------------- layer: Reader.feed, real constants, deviation-bounded
// Default answer: fill the offered buffer. Deviations: short reads from a menu at chosen read numbers,
// so that delimiters come first / last / straddle at the 64 KiB read boundary and the 128 KiB slab rotation.
type c06DevReader struct {
	data  []byte
	pos   int
	cuts  [3][2]int // (read number, at most n bytes)
	ncuts int
	reads int
	zeroAt int // read number answered (0, nil) first; -1 = never
	endErr error
}

func (d *c06DevReader) Read(p []byte) (int, error) {
	if d.pos >= len(d.data) {
		return 0, d.endErr
	}
	if d.reads == d.zeroAt {
		d.zeroAt = -1
		return 0, nil
	}
	n := len(p)
	for i := 0; i < d.ncuts; i++ {
		if d.cuts[i][0] == d.reads && d.cuts[i][1] < n {
			n = d.cuts[i][1]
		}
	}
	d.reads++
	if n > len(d.data)-d.pos {
		n = len(d.data) - d.pos
	}
	copy(p, d.data[d.pos:d.pos+n])
	d.pos += n
	return n, nil
}

type c06RealCase struct {
	lens         []int
	unterminated bool
	delimNil     bool
}

func (c c06RealCase) build() (data []byte, want [][]byte) {
	delim := byte('\n')
	if c.delimNil {
		delim = 0
	}
	k := 0
	fill := func(l int) []byte {
		rec := make([]byte, l)
		for i := range rec {
			rec[i] = byte('a' + k%23) // position-dependent content: a shifted or duplicated stretch shows
			k++
		}
		k += 7
		return rec
	}
	for _, l := range c.lens {
		data = append(data, fill(l)...)
		data = append(data, delim)
	}
	if c.unterminated {
		data = append(data, fill(2)...)
	}
	return data, c06Want(data, delim)
}

func c06RealRun(r *kit.Run, c c06RealCase, data []byte, want [][]byte, dr *c06DevReader, sink *c06Sink) {
	sink.reset()
	var ord int32
	cl := NewChunkList(NewChunkCache(), func(item *Item, b []byte) bool {
		item.text = util.ToChars(b)
		item.text.Index = ord
		ord++
		return true
	})
	rd := NewReader(func(b []byte) bool { sink.push(b); return cl.Push(b) }, nil, nil, c.delimNil, false)
	cuts := append([][2]int{}, dr.cuts[:dr.ncuts]...)
	zeroAt := dr.zeroAt
	perr := c06Feed(rd, dr)
	r.Eval()
	r.Trans()
	if dr.ncuts > 0 {
		r.NT()
	}
	cls := ""
	if perr != nil {
		cls = "panic"
	} else if cls = sink.verdict(want); cls == "" && dr.pos != len(data) {
		cls = "stopped-reading-early"
	}
	if cls == "" {
		// the same records seen through the item structure (Chars aliases the slab too), ordinals from 0
		snap, count, _ := cl.Snapshot(0)
		i := 0
		for _, ch := range snap {
			for j := 0; j < ch.count; j++ {
				it := &ch.items[j]
				if i >= len(want) || int(it.Index()) != i || it.text.ToString() != string(want[i]) {
					cls = "item-content-or-ordinal"
				}
				i++
			}
		}
		if i != len(want) || count != len(want) {
			cls = "item-content-or-ordinal"
		}
	}
	if cls != "" {
		gl := []int{}
		for _, g := range sink.got {
			gl = append(gl, len(g))
		}
		r.Violation("real:"+cls, map[string]any{"record_lens": c.lens, "unterminated": c.unterminated, "read0": c.delimNil, "short_reads(read#,max)": cuts,
			"empty_read_at": zeroAt, "end": fmt.Sprint(dr.endErr), "got_lens": gl, "panic": fmt.Sprint(perr)})
	}
}

func c06RealCases() []c06RealCase {
	B, S := readerBufferSize, readerSlabSize
	var out []c06RealCase
	for _, a := range []int{0, 1, B - 2, B - 1, B, B + 1, S - 1, S, S + 1, S + B + 1, 200 * 1024} {
		for _, b := range []int{0, 1, 3, B - 1, B} {
			for _, un := range []bool{false, true} {
				for _, dn := range []bool{false, true} {
					out = append(out, c06RealCase{[]int{a, b, 2}, un, dn})
				}
			}
		}
	}
	return out
}

func TestVerif_C06_feedreal(t *testing.T) {
	r := kit.Start("C06", "feed-real")
	if r == nil {
		t.Skip()
	}
	defer r.Finish()
	B := readerBufferSize
	r.Param("readerBufferSize", fmt.Sprint(readerBufferSize))
	r.Param("readerSlabSize", fmt.Sprint(readerSlabSize))
	cases := c06RealCases()
	var sink c06Sink
	if d := r.Replay(); d != nil {
		c := c06RealCase{}
		if l, ok := d["record_lens"].([]any); ok {
			for _, v := range l {
				f, _ := v.(float64)
				c.lens = append(c.lens, int(f))
			}
		}
		c.unterminated, _ = d["unterminated"].(bool)
		c.delimNil, _ = d["read0"].(bool)
		dr := &c06DevReader{zeroAt: -1, endErr: io.EOF}
		if s, _ := d["end"].(string); s != "EOF" {
			dr.endErr = c06ErrBroken
		}
		if f, ok := d["empty_read_at"].(float64); ok {
			dr.zeroAt = int(f)
		}
		if l, ok := d["short_reads(read#,max)"].([]any); ok {
			for _, v := range l {
				p, _ := v.([]any)
				if len(p) == 2 && dr.ncuts < 3 {
					a, _ := p[0].(float64)
					b, _ := p[1].(float64)
					dr.cuts[dr.ncuts] = [2]int{int(a), int(b)}
					dr.ncuts++
				}
			}
		}
		data, want := c.build()
		dr.data = data
		c06RealRun(r, c, data, want, dr, &sink)
		return
	}
	maxDev := r.Pick(2, 3)
	r.Param("max_deviations", fmt.Sprint(maxDev))
	menu := []int{1, 2, B - 1, B / 2}
	small := menu[:2]
	for ci, c := range cases {
		if !r.Mine(ci) {
			continue
		}
		if r.ExpiredNow() {
			return
		}
		data, want := c.build()
		r.State()
		nreads := len(data)/B + 3
		run := func(ncuts int, cuts [3][2]int, zeroAt int, endErr error) {
			dr := &c06DevReader{data: data, cuts: cuts, ncuts: ncuts, zeroAt: zeroAt, endErr: endErr}
			c06RealRun(r, c, data, want, dr, &sink)
		}
		run(0, [3][2]int{}, -1, io.EOF)
		run(0, [3][2]int{}, -1, c06ErrBroken)
		for k := 0; k < nreads; k++ {
			run(0, [3][2]int{}, k, io.EOF) // one interposed (0, nil)
			for _, c1 := range menu {
				run(1, [3][2]int{{k, c1}}, -1, io.EOF)
				run(1, [3][2]int{{k, c1}}, k+1, io.EOF)
				for k2 := k + 1; k2 < nreads && k2 < k+3; k2++ {
					for _, c2 := range small {
						run(2, [3][2]int{{k, c1}, {k2, c2}}, -1, io.EOF)
						if maxDev >= 3 {
							for k3 := k2 + 1; k3 < nreads && k3 < k2+3; k3++ {
								for _, c3 := range small {
									run(3, [3][2]int{{k, c1}, {k2, c2}, {k3, c3}}, -1, io.EOF)
								}
							}
						}
					}
				}
			}
		}
		if ci%40 == 3 {
			r.Sample(map[string]any{"record_lens": c.lens, "unterminated": c.unterminated, "read0": c.delimNil, "reads_when_filling": nreads - 2})
		}
	}
}

// ---------------------------------------------------------------- layer: ChunkList push / snapshot(tail)
// Every snapshot holds the last min(tail, n) records (all when tail is 0) with ordinals counting from
// the start of the stream, the returned count and CountItems agree, the "changed" flag says whether the
// list was trimmed, and a snapshot taken earlier is not altered by later pushes or snapshots.
type c06Snap struct {
	chunks  []*Chunk
	count   int
	changed bool
	at      int // records pushed when taken
	lo      int // first ordinal expected
	trimmed bool
}

type c06CL struct {
	cl     *ChunkList
	tail   int
	pushed int
	lo     int // model: first ordinal still in the list
	snaps  []c06Snap
}

func c06NewCL(tail int) *c06CL {
	m := &c06CL{tail: tail}
	var ord int32
	m.cl = NewChunkList(NewChunkCache(), func(item *Item, data []byte) bool {
		item.text = util.ToChars(data)
		item.text.Index = ord
		ord++
		return true
	})
	return m
}

func c06Rec(i int) string { return fmt.Sprintf("r%d", i) }

func (m *c06CL) push() {
	m.cl.Push([]byte(c06Rec(m.pushed)))
	m.pushed++
}

func (m *c06CL) snapshot() {
	trimmed := m.tail > 0 && m.pushed-m.lo > m.tail
	if trimmed {
		m.lo = m.pushed - m.tail
	}
	ch, cnt, changed := m.cl.Snapshot(m.tail)
	m.snaps = append(m.snaps, c06Snap{ch, cnt, changed, m.pushed, m.lo, trimmed})
}

// verify one snapshot; "" or class
func (s *c06Snap) verify() (string, string) {
	i := s.lo
	for ci, ch := range s.chunks {
		for j := 0; j < ch.count; j++ {
			it := &ch.items[j]
			if i >= s.at {
				return "snapshot-content", fmt.Sprintf("chunk %d item %d (ordinal %d): the snapshot was taken after %d pushes and must end at ordinal %d", ci, j, it.Index(), s.at, s.at-1)
			}
			if int(it.Index()) != i || it.text.ToString() != c06Rec(i) {
				return "snapshot-content", fmt.Sprintf("chunk %d item %d: ordinal %d text %q, expected ordinal %d", ci, j, it.Index(), it.text.ToString(), i)
			}
			i++
		}
	}
	if i != s.at {
		return "snapshot-content", fmt.Sprintf("holds ordinals %d..%d, expected %d..%d", s.lo, i-1, s.lo, s.at-1)
	}
	if s.count != s.at-s.lo || CountItems(s.chunks) != s.at-s.lo {
		return "snapshot-count", fmt.Sprintf("count %d CountItems %d, expected %d", s.count, CountItems(s.chunks), s.at-s.lo)
	}
	if s.changed != s.trimmed {
		return "snapshot-changed-flag", fmt.Sprintf("changed=%v, trimmed=%v", s.changed, s.trimmed)
	}
	return "", ""
}

func c06RunCL(r *kit.Run, tail int, ops []int, what string) {
	m := c06NewCL(tail)
	bad := ""
	var perr any
	func() {
		defer func() {
			if x := recover(); x != nil {
				perr = x
			}
		}()
		for _, op := range ops {
			if op == 0 {
				m.push()
			} else {
				m.snapshot()
				// right when taken
				if cls, why := m.snaps[len(m.snaps)-1].verify(); cls != "" && bad == "" {
					bad = cls
					r.Violation(cls, map[string]any{"chunk_size": chunkSize, "tail": tail, "ops(0=push,1=snapshot)": append([]int{}, ops...), "snapshot_no": len(m.snaps) - 1, "why": why, "shape": what})
				}
			}
			r.Trans()
		}
	}()
	r.Eval()
	if perr != nil {
		r.Violation("panic", map[string]any{"chunk_size": chunkSize, "tail": tail, "ops(0=push,1=snapshot)": append([]int{}, ops...), "panic": fmt.Sprint(perr), "shape": what})
		return
	}
	if len(m.snaps) > 0 {
		r.NT()
	}
	if bad != "" {
		return
	}
	// after everything: immutability
	for si := range m.snaps {
		if cls, why := m.snaps[si].verify(); cls != "" {
			r.Violation("snapshot-altered-later", map[string]any{"chunk_size": chunkSize, "tail": tail, "ops(0=push,1=snapshot)": append([]int{}, ops...), "snapshot_no": si, "why": why, "shape": what})
			return
		}
	}
}

func TestVerif_C06_chunklist(t *testing.T) {
	layer := "chunklist"
	if chunkSize <= 8 {
		layer = "chunklist-scaled"
	}
	r := kit.Start("C06", layer)
	if r == nil {
		t.Skip()
	}
	defer r.Finish()
	r.Param("chunkSize", fmt.Sprint(chunkSize))
	if d := r.Replay(); d != nil {
		tail, _ := d["tail"].(float64)
		var ops []int
		if l, ok := d["ops(0=push,1=snapshot)"].([]any); ok {
			for _, v := range l {
				f, _ := v.(float64)
				ops = append(ops, int(f))
			}
		}
		c06RunCL(r, int(tail), ops, "replay")
		return
	}
	idx := 0
	if chunkSize <= 8 {
		// every sequence of pushes and snapshots up to 3*chunkSize+2 operations
		depth := 3*chunkSize + 2
		r.Param("depth", fmt.Sprint(depth))
		for tail := 0; tail <= chunkSize+1; tail++ {
			kit.Sequences(2, 0, depth, func(ops []int) bool {
				idx++
				if !r.Mine(idx) {
					return true
				}
				if r.ExpiredNow() {
					return false
				}
				c06RunCL(r, tail, ops, "all sequences")
				r.State()
				return true
			})
		}
		r.Sample(map[string]any{"tail": 3, "ops(0=push,1=snapshot)": []int{0, 0, 0, 0, 0, 1, 0, 1, 1, 0, 0, 0, 0, 1}})
		return
	}
	// real chunk size: up to three snapshots (repeats allowed) at the interesting push counts, 3*chunkSize+2 pushes in all
	total := 3*chunkSize + 2
	points := []int{0, 1, chunkSize - 1, chunkSize, chunkSize + 1, 2 * chunkSize, 2*chunkSize + 1, total}
	for _, tail := range []int{0, 1, 2, chunkSize - 1, chunkSize, chunkSize + 1, 2 * chunkSize, 2*chunkSize + 1} {
		for a := 0; a < len(points); a++ {
			for b := a; b < len(points); b++ {
				for c := b; c < len(points); c++ {
					idx++
					if !r.Mine(idx) {
						continue
					}
					if r.ExpiredNow() {
						return
					}
					sched := map[int]int{}
					sched[points[a]]++
					sched[points[b]]++
					sched[points[c]]++
					var ops []int
					for n := 0; ; n++ {
						for k := 0; k < sched[n]; k++ {
							ops = append(ops, 1)
						}
						if n == total {
							break
						}
						ops = append(ops, 0)
					}
					c06RunCL(r, tail, ops, fmt.Sprintf("snapshots after %d, %d, %d pushes", points[a], points[b], points[c]))
					r.State()
				}
			}
		}
	}
	r.Sample(map[string]any{"tail": chunkSize + 1, "snapshots_after_pushes": []int{chunkSize, 2*chunkSize + 1, total}, "pushes": total})
}
