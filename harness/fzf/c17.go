package fzf

// C17 - any command line is either accepted as documented or rejected cleanly.
//
// Layers
//   totality  - option vocabulary read from the live options.go x a value menu, in every spelling
//               (separate word, =value, glued short form, repeated): ParseOptions returns exactly one of
//               (options, nil) / (nil, error with a message) and never panics.
//   pairs     - all ordered pairs of accepted single-option vectors: totality, and
//               parse(env=E, args=A) == parse(args=words(E)+A); parse(file=E, args=A) likewise.
//   last-wins - for every option and every ordered pair of values it accepts:
//               parse([o v1 o v2]) == parse([o v2]); parse(env=[o v1], args=[o v2]) == parse([o v2]);
//               --x / --no-x (and -x / +x) override each other. Options documented as cumulative are listed
//               in c17Cumulative with the sentence that documents it.
//   bind      - bind strings generated from the grammar, parseKeymap must give every key exactly the listed
//               (action, argument) pairs in order, arguments verbatim, in every documented delimiter form.
// Configurations are compared on a reflective dump of Options (function-valued fields by behaviour on
// probe inputs). The action-name -> action-type table is read from the live source and trusted as data:
// the property is about splitting, masking and ordering, not about the table.

import (
	"fmt"
	"io"
	"os"
	"reflect"
	"regexp"
	"sort"
	"strings"
	"testing"

	"github.com/junegunn/fzf/src/tui"
	kit "github.com/junegunn/fzf/src/verifkit"
)

// ---------------------------------------------------------------- tables read from the live source

func c17Source() string {
	p := os.Getenv("C17_OPTIONS_GO")
	if p == "" {
		p = "/repo/src/options.go"
	}
	b, err := os.ReadFile(p)
	if err != nil {
		panic("c17 harness: " + err.Error())
	}
	return string(b)
}

func c17Region(src, from, to string) string {
	a := strings.Index(src, from)
	if a < 0 {
		panic("c17 harness: marker not found: " + from)
	}
	b := strings.Index(src[a:], to)
	if b < 0 {
		panic("c17 harness: marker not found: " + to)
	}
	return src[a : a+b]
}

func c17Vocabulary(src string) []string {
	body := c17Region(src, "func parseOptions(", "\nfunc applyPreset(")
	re := regexp.MustCompile(`"(--[a-z0-9-]+|-[a-zA-Z0-9]|\+[a-zA-Z0-9]|--)"`)
	seen := map[string]bool{}
	var names []string
	for _, m := range re.FindAllStringSubmatch(body, -1) {
		if !seen[m[1]] {
			seen[m[1]] = true
			names = append(names, m[1])
		}
	}
	sort.Strings(names)
	return names
}

func c17ActionTypeByName() map[string]actionType {
	out := map[string]actionType{}
	for i := 0; i < 1000; i++ {
		s := actionType(i).String()
		if strings.HasPrefix(s, "actionType(") {
			break
		}
		out[s] = actionType(i)
	}
	return out
}

// names without argument -> action types; names with argument -> action type
func c17ActionTables(src string) (map[string][]actionType, map[string]actionType) {
	byName := c17ActionTypeByName()
	argless := map[string][]actionType{}
	body := c17Region(src, "func parseActionList(", "\nfunc parseKeymap(")
	re := regexp.MustCompile(`case ((?:"[^"]+"(?:, )?)+):\s*\n\s*appendAction\(([^)]*)\)`)
	lab := regexp.MustCompile(`"([^"]+)"`)
	for _, m := range re.FindAllStringSubmatch(body, -1) {
		var types []actionType
		for _, id := range strings.Split(m[2], ",") {
			t, ok := byName[strings.TrimSpace(id)]
			if !ok {
				panic("c17 harness: unknown action identifier " + id)
			}
			types = append(types, t)
		}
		for _, l := range lab.FindAllStringSubmatch(m[1], -1) {
			argless[l[1]] = types
		}
	}
	argful := map[string]actionType{}
	body = c17Region(src, "func isExecuteAction(", "\nfunc parseToggleSort(")
	re2 := regexp.MustCompile(`case "([^"]+)":\s*\n\s*return (act\w+)`)
	for _, m := range re2.FindAllStringSubmatch(body, -1) {
		t, ok := byName[m[2]]
		if !ok {
			panic("c17 harness: unknown action identifier " + m[2])
		}
		argful[m[1]] = t
	}
	if len(argless) < 50 || len(argful) < 20 {
		panic(fmt.Sprintf("c17 harness: action tables look wrong (%d, %d)", len(argless), len(argful)))
	}
	return argless, argful
}

func c17Sorted[T any](m map[string]T) []string {
	var ks []string
	for k := range m {
		ks = append(ks, k)
	}
	sort.Strings(ks)
	return ks
}

// ---------------------------------------------------------------- running the parser

type c17Result struct {
	opts  *Options
	err   error
	panic string
}

func (p c17Result) accepted() bool { return p.panic == "" && p.err == nil && p.opts != nil }

// env == nil: ParseOptions(false, args). Otherwise $FZF_DEFAULT_OPTS (and, if file != nil, the options file).
func c17Parse(args []string, env *string, file *string) (res c17Result) {
	defaultBorderShape = tui.DefaultBorderShape // package-level default that --style may change
	use := env != nil || file != nil
	if env != nil {
		os.Setenv("FZF_DEFAULT_OPTS", *env)
		defer os.Unsetenv("FZF_DEFAULT_OPTS")
	}
	if file != nil {
		if err := os.WriteFile("c17-opts-file", []byte(*file), 0o600); err != nil {
			panic(err)
		}
		os.Setenv("FZF_DEFAULT_OPTS_FILE", "c17-opts-file")
		defer os.Unsetenv("FZF_DEFAULT_OPTS_FILE")
	}
	defer func() {
		if e := recover(); e != nil {
			res.panic = fmt.Sprint(e)
		}
	}()
	res.opts, res.err = ParseOptions(use, append([]string{}, args...))
	return
}

func c17Quote(words []string) string {
	var parts []string
	for _, w := range words {
		if !strings.Contains(w, "'") {
			parts = append(parts, "'"+w+"'")
		} else {
			w = strings.ReplaceAll(w, `\`, `\\`)
			w = strings.ReplaceAll(w, `"`, `\"`)
			parts = append(parts, `"`+w+`"`)
		}
	}
	return strings.Join(parts, " ")
}

func c17QuoteOK(words []string) bool {
	got, err := parseShellWords(c17Quote(words))
	if err != nil || len(got) != len(words) {
		return false
	}
	for i := range got {
		if got[i] != words[i] {
			return false
		}
	}
	return true
}

// ---------------------------------------------------------------- dump of a configuration

var c17PrinterCache = map[uintptr]string{}

func c17Printed(p func(string)) string {
	if p == nil {
		return "<nil>"
	}
	key := reflect.ValueOf(p).Pointer()
	if s, ok := c17PrinterCache[key]; ok {
		return s
	}
	r, w, err := os.Pipe()
	if err != nil {
		panic(err)
	}
	old := os.Stdout
	os.Stdout = w
	p("p")
	os.Stdout = old
	w.Close()
	b, _ := io.ReadAll(r)
	r.Close()
	c17PrinterCache[key] = string(b)
	return string(b)
}

func c17Nth(f func(Delimiter) func([]Token, int32) string) string {
	if f == nil {
		return "<nil>"
	}
	var out []string
	for _, probe := range []string{"a b  c", "x", ""} {
		func() {
			defer func() {
				if e := recover(); e != nil {
					out = append(out, "panic")
				}
			}()
			out = append(out, f(Delimiter{})(Tokenize(probe, Delimiter{}), 3))
		}()
	}
	return fmt.Sprintf("%q", out)
}

func c17DumpValue(sb *strings.Builder, path string, v reflect.Value, skip map[string]bool, depth int) {
	if skip[path] || depth > 8 {
		return
	}
	switch v.Kind() {
	case reflect.Ptr, reflect.Interface:
		if v.IsNil() {
			fmt.Fprintf(sb, "%s=nil\n", path)
			return
		}
		c17DumpValue(sb, path, v.Elem(), skip, depth+1)
	case reflect.Struct:
		for i := 0; i < v.NumField(); i++ {
			c17DumpValue(sb, path+"."+v.Type().Field(i).Name, v.Field(i), skip, depth+1)
		}
	case reflect.Slice, reflect.Array:
		if v.Kind() == reflect.Slice && v.IsNil() {
			fmt.Fprintf(sb, "%s=[]\n", path) // nil and empty lists mean the same to every consumer
			return
		}
		if v.Len() == 0 {
			fmt.Fprintf(sb, "%s=[]\n", path)
		}
		for i := 0; i < v.Len(); i++ {
			c17DumpValue(sb, fmt.Sprintf("%s[%d]", path, i), v.Index(i), skip, depth+1)
		}
	case reflect.Map:
		type kv struct{ k, v string }
		var items []kv
		for _, k := range v.MapKeys() {
			var kb, vb strings.Builder
			c17DumpValue(&kb, "", k, nil, depth+1)
			c17DumpValue(&vb, "", v.MapIndex(k), nil, depth+1)
			items = append(items, kv{strings.ReplaceAll(kb.String(), "\n", ";"), strings.ReplaceAll(vb.String(), "\n", ";")})
		}
		sort.Slice(items, func(i, j int) bool { return items[i].k < items[j].k })
		fmt.Fprintf(sb, "%s=map(%d)\n", path, len(items))
		for _, it := range items {
			fmt.Fprintf(sb, "%s{%s}=%s\n", path, it.k, it.v)
		}
	case reflect.Func, reflect.Chan:
		fmt.Fprintf(sb, "%s=<nil:%v>\n", path, v.IsNil())
	case reflect.String:
		fmt.Fprintf(sb, "%s=%q\n", path, v.String())
	case reflect.Bool:
		fmt.Fprintf(sb, "%s=%v\n", path, v.Bool())
	case reflect.Int, reflect.Int8, reflect.Int16, reflect.Int32, reflect.Int64:
		fmt.Fprintf(sb, "%s=%d\n", path, v.Int())
	case reflect.Uint, reflect.Uint8, reflect.Uint16, reflect.Uint32, reflect.Uint64, reflect.Uintptr:
		fmt.Fprintf(sb, "%s=%d\n", path, v.Uint())
	case reflect.Float32, reflect.Float64:
		fmt.Fprintf(sb, "%s=%v\n", path, v.Float())
	default:
		fmt.Fprintf(sb, "%s=<%s>\n", path, v.Kind())
	}
}

var c17IndexFields = map[string]bool{"o.Height.index": true, "o.Tmux.index": true}

// positional: keep the bookkeeping fields that record WHERE on the command line --height / --tmux stood
func c17Dump(o *Options, positional bool) string {
	var sb strings.Builder
	skip := map[string]bool{"o.Printer": true, "o.WithNth": true, "o.AcceptNth": true, "o.Delimiter": true, "o.InfoPrefix": true}
	if !positional {
		for k := range c17IndexFields {
			skip[k] = true
		}
	}
	c17DumpValue(&sb, "o", reflect.ValueOf(o).Elem(), skip, 0)
	fmt.Fprintf(&sb, "o.Printer prints %q\n", c17Printed(o.Printer))
	fmt.Fprintf(&sb, "o.WithNth gives %s\n", c17Nth(o.WithNth))
	fmt.Fprintf(&sb, "o.AcceptNth gives %s\n", c17Nth(o.AcceptNth))
	d := "regex=nil"
	if o.Delimiter.regex != nil {
		d = "regex=" + o.Delimiter.regex.String()
	}
	if o.Delimiter.str != nil {
		d += fmt.Sprintf(" str=%q", *o.Delimiter.str)
	}
	fmt.Fprintf(&sb, "o.Delimiter %s\n", d)
	// the info prefix is only read with the inline styles
	if o.InfoStyle == infoInline || o.InfoStyle == infoInlineRight {
		fmt.Fprintf(&sb, "o.InfoPrefix=%q\n", o.InfoPrefix)
	}
	return sb.String()
}

// structural comparison without building strings (the dump is only produced to explain a difference)
func c17Same(a, b reflect.Value, depth int) bool {
	if a.Kind() != b.Kind() || depth > 10 {
		return false
	}
	switch a.Kind() {
	case reflect.Ptr, reflect.Interface:
		if a.IsNil() || b.IsNil() {
			return a.IsNil() == b.IsNil()
		}
		return c17Same(a.Elem(), b.Elem(), depth+1)
	case reflect.Struct:
		for i := 0; i < a.NumField(); i++ {
			if !c17Same(a.Field(i), b.Field(i), depth+1) {
				return false
			}
		}
		return true
	case reflect.Slice, reflect.Array:
		if a.Len() != b.Len() {
			return false
		}
		for i := 0; i < a.Len(); i++ {
			if !c17Same(a.Index(i), b.Index(i), depth+1) {
				return false
			}
		}
		return true
	case reflect.Map:
		if a.Len() != b.Len() {
			return false
		}
		it := a.MapRange()
		for it.Next() {
			bv := b.MapIndex(it.Key())
			if !bv.IsValid() || !c17Same(it.Value(), bv, depth+1) {
				return false
			}
		}
		return true
	case reflect.Func, reflect.Chan:
		return a.IsNil() == b.IsNil()
	case reflect.String:
		return a.String() == b.String()
	case reflect.Bool:
		return a.Bool() == b.Bool()
	case reflect.Int, reflect.Int8, reflect.Int16, reflect.Int32, reflect.Int64:
		return a.Int() == b.Int()
	case reflect.Uint, reflect.Uint8, reflect.Uint16, reflect.Uint32, reflect.Uint64, reflect.Uintptr:
		return a.Uint() == b.Uint()
	case reflect.Float32, reflect.Float64:
		return a.Float() == b.Float()
	}
	return false
}

var c17Special = map[string]bool{"Printer": true, "WithNth": true, "AcceptNth": true, "Delimiter": true, "InfoPrefix": true, "Height": true, "Tmux": true}
var c17Generic []int

func c17SameOptions(x, y *Options, positional bool) bool {
	a, b := reflect.ValueOf(x).Elem(), reflect.ValueOf(y).Elem()
	if c17Generic == nil {
		for i := 0; i < a.NumField(); i++ {
			if !c17Special[a.Type().Field(i).Name] {
				c17Generic = append(c17Generic, i)
			}
		}
	}
	for _, i := range c17Generic {
		if !c17Same(a.Field(i), b.Field(i), 0) {
			return false
		}
	}
	hx, hy := x.Height, y.Height
	if !positional {
		hx.index, hy.index = 0, 0
	}
	if hx != hy {
		return false
	}
	if (x.Tmux == nil) != (y.Tmux == nil) {
		return false
	}
	if x.Tmux != nil {
		tx, ty := *x.Tmux, *y.Tmux
		if !positional {
			tx.index, ty.index = 0, 0
		}
		if tx != ty {
			return false
		}
	}
	if (x.Delimiter.regex == nil) != (y.Delimiter.regex == nil) || (x.Delimiter.str == nil) != (y.Delimiter.str == nil) {
		return false
	}
	if x.Delimiter.regex != nil && x.Delimiter.regex.String() != y.Delimiter.regex.String() {
		return false
	}
	if x.Delimiter.str != nil && *x.Delimiter.str != *y.Delimiter.str {
		return false
	}
	if (x.InfoStyle == infoInline || x.InfoStyle == infoInlineRight) && x.InfoPrefix != y.InfoPrefix {
		return false
	}
	if c17Printed(x.Printer) != c17Printed(y.Printer) {
		return false
	}
	if (x.WithNth != nil || y.WithNth != nil) && c17Nth(x.WithNth) != c17Nth(y.WithNth) {
		return false
	}
	if (x.AcceptNth != nil || y.AcceptNth != nil) && c17Nth(x.AcceptNth) != c17Nth(y.AcceptNth) {
		return false
	}
	return true
}

func c17FirstDiff(a, b string) string {
	la, lb := strings.Split(a, "\n"), strings.Split(b, "\n")
	for i := 0; i < len(la) || i < len(lb); i++ {
		x, y := "<end>", "<end>"
		if i < len(la) {
			x = la[i]
		}
		if i < len(lb) {
			y = lb[i]
		}
		if x != y {
			return x + "   VS   " + y
		}
	}
	return ""
}

func c17DiffField(d string) string {
	if i := strings.IndexAny(d, "=[{ "); i > 0 {
		return d[:i]
	}
	return d
}

// ---------------------------------------------------------------- value menu

var c17Values = []string{"", "0", "1", "-1", "2", "10", "abc", "50%", "~5", "~100%", "a,b", "1..2", "2..", "..-1",
	"ctrl-a:up", ":", ",", "up,", "up", "left,30%", "right:50%:wrap", "é", "界", "99999999999999999999", "--", "-", "+",
	"fg:1", "fg:#ff0000,bg:-1", "fg:bold:underline", "nth:regular", "nth:1", "dark", "bw", "{1}", "{1} {2}", "'", "\"", "\\", " ", "a b", "x\ny", "\t",
	"length", "begin,end", "index", "chunk,pathname", "reverse", "reverse-list", "default", "path", "history", "v1", "v2",
	"inline", "inline: x", "inline-right", "right", "hidden", "rounded", "sharp", "none", "line", "double", "top", "center",
	"bottom,40%", "90%,70%", "left,40%,border-native", "file", "dir,hidden", "file,follow", "6266", "localhost:7000", ":0",
	"host:99999", "a:b:c", "ctrl-a,f1", "a,,b", "alt-,", "f13", "ab", "abc", "▌", "╻┃╹", "│", "full", "full:double", "full:",
	"minimal", "sh -c", "1,2", "1,2,3,4", "1,2,3,4,5", "10%,5", "3:bottom", "x:bottom", "[ab]+", "(", ".", "c17-history",
	"start:reload(x)", "a:execute(", "a:put", "ctrl-a:put", "a:b", ",:up", "::up", "+:up", "a:+", "f1:unbind(x)", "f1:rebind()",
	"f1:change-preview-window(up|x)", "f1:execute:a,b+c", "+{2}-/2", "<80(up)", "border-left", "~3", "cycle,wrap,nohidden",
	"0.5", "1e3", "0x10", "５", "5+", "a+", "+5",
	// every keyword of an all-optional value grammar ALONE (a value may consist of nothing but an optional keyword)
	"border-native", "wrap", "nowrap", "hidden", "follow", "cycle", "border-none", "noborder", "~", "%", "alt-enter", "double-click"}

func c17Spellings(name, v string) [][]string {
	out := [][]string{{name, v}, {name, v, name, v}}
	if strings.HasPrefix(name, "--") {
		out = append(out, []string{name + "=" + v})
	} else {
		out = append(out, []string{name + v})
	}
	return out
}

// ---------------------------------------------------------------- layer: totality
func c17Total(r *kit.Run, args []string, env, file *string) c17Result {
	res := c17Parse(args, env, file)
	r.Eval()
	detail := func() map[string]any {
		d := map[string]any{"args": args}
		if env != nil {
			d["FZF_DEFAULT_OPTS"] = *env
		}
		if file != nil {
			d["FZF_DEFAULT_OPTS_FILE_content"] = *file
		}
		return d
	}
	switch {
	case res.panic != "":
		d := detail()
		d["panic"] = res.panic
		r.Violation("panic", d)
	case (res.opts == nil) == (res.err == nil):
		d := detail()
		d["options_nil"], d["error_nil"] = res.opts == nil, res.err == nil
		r.Violation("totality:neither-or-both", d)
	case res.err != nil && strings.TrimSpace(res.err.Error()) == "":
		r.Violation("totality:empty-error-message", detail())
	}
	if res.accepted() {
		r.Count("accepted")
	} else {
		r.Count("rejected")
	}
	return res
}

func c17ReplayParse(r *kit.Run, d map[string]any) {
	strs := func(k string) []string {
		var out []string
		l, _ := d[k].([]any)
		for _, x := range l {
			out = append(out, x.(string))
		}
		return out
	}
	opt := func(k string) *string {
		if s, ok := d[k].(string); ok {
			return &s
		}
		return nil
	}
	if _, ok := d["args_a"]; ok {
		c17Relate(r, d["relation"].(string), d["class"].(string), strs("args_a"), opt("env_a"), opt("file_a"), strs("args_b"), nil, d["positional"] == true)
		return
	}
	c17Total(r, strs("args"), opt("FZF_DEFAULT_OPTS"), opt("FZF_DEFAULT_OPTS_FILE_content"))
}

func TestVerif_C17_totality(t *testing.T) {
	r := kit.Start("C17", "totality")
	if r == nil {
		t.Skip()
	}
	defer r.Finish()
	if d := r.Replay(); d != nil {
		c17ReplayParse(r, d)
		return
	}
	names := c17Vocabulary(c17Source())
	r.Param("option_names", fmt.Sprint(len(names)))
	r.Param("values", fmt.Sprint(len(c17Values)))
	i := 0
	for _, nm := range names {
		for vi, v := range c17Values {
			i++
			if !r.Mine(i) {
				continue
			}
			if r.ExpiredNow() {
				return
			}
			if vi == 0 {
				c17Total(r, []string{nm}, nil, nil)
				c17Total(r, []string{nm, nm}, nil, nil)
			}
			for _, sp := range c17Spellings(nm, v) {
				if c17Total(r, sp, nil, nil).accepted() {
					r.NT()
				}
			}
			// the same words arriving through the environment and through the options file
			if c17QuoteOK([]string{nm, v}) {
				q := c17Quote([]string{nm, v})
				c17Total(r, nil, &q, nil)
				c17Total(r, nil, nil, &q)
			}
		}
	}
	if r.Shard == 0 {
		r.Sample(map[string]any{"args": []string{names[len(names)/2] + "=" + c17Values[7]}})
		// malformed environment / file: rejected, not crashed
		for _, bad := range []string{"'", "\"a", "a\\", "--bind 'a:execute(", "# only a comment", "\x00"} {
			bad := bad
			c17Total(r, nil, &bad, nil)
			c17Total(r, nil, nil, &bad)
		}
	}
}

// ---------------------------------------------------------------- relations between configurations

// parse A (args_a with env_a / file_a) and B (args_b) must agree: both rejected, or both accepted with equal dumps
func c17Relate(r *kit.Run, relation, class string, argsA []string, envA, fileA *string, argsB []string, envB *string, positional bool) bool {
	a := c17Parse(argsA, envA, fileA)
	b := c17Parse(argsB, envB, nil)
	r.Evals(2)
	detail := func() map[string]any {
		d := map[string]any{"relation": relation, "class": class, "args_a": argsA, "args_b": argsB, "positional": positional}
		if envA != nil {
			d["env_a"] = *envA
		}
		if fileA != nil {
			d["file_a"] = *fileA
		}
		return d
	}
	if a.panic != "" || b.panic != "" {
		d := detail()
		d["panic"] = a.panic + b.panic
		r.Violation("panic", d)
		return false
	}
	if a.accepted() != b.accepted() {
		d := detail()
		d["a_error"], d["b_error"] = fmt.Sprint(a.err), fmt.Sprint(b.err)
		r.Violation(class+":accept-reject-differs", d)
		return false
	}
	if !a.accepted() {
		r.Count("both_rejected")
		return true
	}
	if !c17SameOptions(a.opts, b.opts, positional) {
		d := detail()
		diff := c17FirstDiff(c17Dump(a.opts, positional), c17Dump(b.opts, positional))
		if diff == "" {
			diff = "o.<difference not shown by the dump>"
		}
		d["first_difference"] = diff
		r.Violation(class+":"+c17DiffField(diff), d)
		return false
	}
	r.NT()
	return true
}

// single-option vectors that are accepted on their own (at most k per option name), in menu order
func c17Singles(names []string, k int) [][]string {
	var out [][]string
	for _, nm := range names {
		n := 0
		if c17Parse([]string{nm}, nil, nil).accepted() {
			out = append(out, []string{nm})
			n++
		}
		for _, v := range c17Values {
			if n >= k {
				break
			}
			if nm == "--history" && v != "c17-history" {
				continue // one history file is enough in the worker's directory
			}
			for _, sp := range c17Spellings(nm, v)[:1] {
				if c17Parse(sp, nil, nil).accepted() {
					out = append(out, sp)
					n++
				}
			}
		}
	}
	return out
}

func TestVerif_C17_pairs(t *testing.T) {
	r := kit.Start("C17", "pairs")
	if r == nil {
		t.Skip()
	}
	defer r.Finish()
	if d := r.Replay(); d != nil {
		c17ReplayParse(r, d)
		return
	}
	names := c17Vocabulary(c17Source())
	singles := c17Singles(names, r.Pick(2, 4))
	r.Param("single_vectors", fmt.Sprint(len(singles)))
	idx := 0
	for i, s1 := range singles {
		if r.ExpiredNow() {
			return
		}
		quotable := c17QuoteOK(s1)
		q := c17Quote(s1)
		for j, s2 := range singles {
			idx++
			if !r.Mine(idx) {
				continue
			}
			both := append(append([]string{}, s1...), s2...)
			c17Total(r, both, nil, nil)
			if !quotable {
				r.Count("env_form_not_expressible")
				continue
			}
			// command-line arguments come after the environment: same as one argument vector
			c17Relate(r, "parse(env=E, args=A) == parse(args=words(E)+A)", "env-vs-args", s2, &q, nil, both, nil, true)
			if (i+j)%5 == 0 {
				c17Relate(r, "parse(file=E, args=A) == parse(args=words(E)+A)", "file-vs-args", s2, nil, &q, both, nil, true)
			}
		}
	}
	if r.Shard == 0 && len(singles) > 40 {
		r.Sample(map[string]any{"FZF_DEFAULT_OPTS": c17Quote(singles[40]), "args": singles[len(singles)-40]})
	}
}

// options documented as cumulative (a later occurrence adds to the earlier ones instead of replacing them)
var c17Cumulative = map[string]string{
	"--bind":           "man: bindings accumulate ('--bind' can be given multiple times; 'ctrl-a:+accept' appends)",
	"--color":          "man: '--color' specs are applied on top of the current theme",
	"--expect":         "each --expect adds keys (see --no-expect to reset)",
	"--preview-window": "man: preview window options accumulate over multiple --preview-window",
	"--toggle-sort":    "a key binding (goes into the same keymap as --bind)",
	"--walker-root":    "takes a list of directories",
}

func c17Negation(names []string) map[string]string {
	has := map[string]bool{}
	for _, n := range names {
		has[n] = true
	}
	out := map[string]string{}
	for _, n := range names {
		if strings.HasPrefix(n, "--no-") && has["--"+n[5:]] {
			out["--"+n[5:]] = n
		}
		if len(n) == 2 && n[0] == '+' && has["-"+n[1:]] {
			out["-"+n[1:]] = n
		}
	}
	return out
}

// is v taken as the value of option nm when it follows it as a separate word? It is when that spelling is
// accepted and means the same as the spelling that cannot be read otherwise (--name=v, or -nv glued)
func c17Consumed(nm, v string) bool {
	a := c17Parse([]string{nm, v}, nil, nil)
	if !a.accepted() {
		return false
	}
	glued := nm + v
	if strings.HasPrefix(nm, "--") {
		glued = nm + "=" + v
	}
	b := c17Parse([]string{glued}, nil, nil)
	return b.accepted() && c17SameOptions(a.opts, b.opts, true)
}

func TestVerif_C17_lastwins(t *testing.T) {
	r := kit.Start("C17", "last-wins")
	if r == nil {
		t.Skip()
	}
	defer r.Finish()
	if d := r.Replay(); d != nil {
		c17ReplayParse(r, d)
		return
	}
	names := c17Vocabulary(c17Source())
	neg := c17Negation(names)
	r.Param("negation_pairs", fmt.Sprint(len(neg)))
	maxVals := r.Pick(10, 24)
	unit := 0
	for _, nm := range names {
		unit++
		if !r.Mine(unit) {
			continue
		}
		if r.ExpiredNow() {
			return
		}
		// the values this option accepts
		var vals []string
		for _, v := range c17Values {
			if nm == "--history" && v != "c17-history" && v != "abc" {
				continue
			}
			if len(vals) < maxVals && c17Consumed(nm, v) {
				vals = append(vals, v)
			}
		}
		bare := c17Parse([]string{nm}, nil, nil).accepted()
		if len(vals) >= 2 {
			r.Count("options_with_two_or_more_values")
		}
		r.CountN("option_values", len(vals))
		_, cumulative := c17Cumulative[nm]
		if cumulative {
			r.Count("cumulative_options_skipped")
		}
		eq := strings.HasPrefix(nm, "--")
		for _, v1 := range vals {
			for _, v2 := range vals {
				if cumulative {
					continue
				}
				c17Relate(r, "parse([o v1 o v2]) == parse([o v2])", "last-wins:"+nm, []string{nm, v1, nm, v2}, nil, nil, []string{nm, v2}, nil, false)
				if eq {
					c17Relate(r, "parse([o=v1 o=v2]) == parse([o=v2])", "last-wins:"+nm, []string{nm + "=" + v1, nm + "=" + v2}, nil, nil, []string{nm + "=" + v2}, nil, false)
				}
				if c17QuoteOK([]string{nm, v1}) {
					q := c17Quote([]string{nm, v1})
					c17Relate(r, "parse(env=[o v1], args=[o v2]) == parse([o v2])", "args-over-env:"+nm, []string{nm, v2}, &q, nil, []string{nm, v2}, nil, false)
				}
			}
		}
		if n, ok := neg[nm]; ok {
			pos := [][]string{}
			if bare {
				pos = append(pos, []string{nm})
			}
			for _, v := range vals {
				pos = append(pos, []string{nm, v})
			}
			// an option and its negation must be distinguishable by at least one spelling (otherwise one of the two
			// does nothing); a single neutral value such as --height 0 proves nothing, so two spellings are required
			if len(pos) >= 2 || bare {
				b := c17Parse([]string{n}, nil, nil)
				same := b.accepted()
				for _, p := range pos {
					a := c17Parse(p, nil, nil)
					r.Evals(1)
					if !(a.accepted() && b.accepted() && c17SameOptions(a.opts, b.opts, false)) {
						same = false
						break
					}
				}
				if same {
					r.Violation("negation-indistinguishable:"+n, map[string]any{"args": pos, "negation": []string{n}, "note": "all give the same configuration"})
				}
			}
			for _, p := range pos {
				c17Relate(r, "parse([o.. --no-o]) == parse([--no-o])", "negation:"+n, append(append([]string{}, p...), n), nil, nil, []string{n}, nil, false)
				if !cumulative {
					c17Relate(r, "parse([--no-o o..]) == parse([o..])", "negation:"+nm, append([]string{n}, p...), nil, nil, p, nil, false)
				}
				q := c17Quote(p)
				if c17QuoteOK(p) {
					c17Relate(r, "parse(env=[o..], args=[--no-o]) == parse([--no-o])", "args-over-env:"+n, []string{n}, &q, nil, []string{n}, nil, false)
				}
			}
		}
	}
	if r.Shard == 0 {
		r.Sample(map[string]any{"relation": "parse([o v1 o v2]) == parse([o v2])", "args_a": []string{"--tabstop", "2", "--tabstop", "10"}, "args_b": []string{"--tabstop", "10"}})
	}
}

// ---------------------------------------------------------------- layer: bind grammar round trip

type c17Key struct {
	text string
	ev   tui.Event
}

var c17Keys = []c17Key{
	{"ctrl-a", tui.CtrlA.AsEvent()}, {"a", tui.Key('a')}, {"f1", tui.F1.AsEvent()}, {"alt-x", tui.AltKey('x')},
	{"enter", tui.Enter.AsEvent()}, {"space", tui.Key(' ')}, {"start", tui.Start.AsEvent()}, {"change", tui.Change.AsEvent()},
	{"é", tui.Key('é')}, {",", tui.Key(',')}, {":", tui.Key(':')}, {"+", tui.Key('+')}, {"ctrl-alt-a", tui.CtrlAltKey('a')},
	{"CTRL-B", tui.CtrlB.AsEvent()}, {"double-click", tui.DoubleClick.AsEvent()}, {"alt-enter", tui.CtrlAltKey('m')},
}

var c17Other = c17Key{"f2", tui.F2.AsEvent()}
var c17Third = c17Key{"f3", tui.F3.AsEvent()}

type c17Act struct {
	name  string
	arg   string
	open  string // "" = no argument; ":" = rest-of-string form
	types []actionType
}

var c17Opens = []string{"(", "[", "{", "<", "~", "!", "@", "#", "$", "%", "^", "&", "*", ";", "/", "|", ":"}

func c17Close(open string) string {
	switch open {
	case "(":
		return ")"
	case "[":
		return "]"
	case "{":
		return "}"
	case "<":
		return ">"
	case ":":
		return ""
	}
	return open
}

func (a c17Act) render() string {
	if a.open == "" {
		return a.name
	}
	return a.name + a.open + a.arg + c17Close(a.open)
}

func (a c17Act) want() []action {
	var out []action
	for _, t := range a.types {
		out = append(out, action{t, a.arg})
	}
	return out
}

func c17RenderList(l []c17Act) string {
	var parts []string
	for _, a := range l {
		parts = append(parts, a.render())
	}
	return strings.Join(parts, "+")
}

func c17WantList(l []c17Act) []action {
	var out []action
	for _, a := range l {
		out = append(out, a.want()...)
	}
	return out
}

func c17ShowActions(l []action) []string {
	out := []string{}
	for _, a := range l {
		out = append(out, fmt.Sprintf("%s(%q)", a.t.String(), a.a))
	}
	return out
}

func c17ShowEvent(e tui.Event) string { return fmt.Sprintf("type=%d char=%q", e.Type, e.Char) }

// run the bind strings in order on one keymap and compare the whole keymap with want
func c17Bind(r *kit.Run, form string, binds []string, want map[tui.Event][]action) {
	km := make(map[tui.Event][]*action)
	var err error
	pan := ""
	func() {
		defer func() {
			if e := recover(); e != nil {
				pan = fmt.Sprint(e)
			}
		}()
		for _, b := range binds {
			if err = parseKeymap(km, b); err != nil {
				return
			}
		}
	}()
	r.Eval()
	detail := func() map[string]any {
		w := map[string][]string{}
		for k, v := range want {
			w[c17ShowEvent(k)] = c17ShowActions(v)
		}
		g := map[string][]string{}
		for k, v := range km {
			var l []action
			for _, a := range v {
				l = append(l, *a)
			}
			g[c17ShowEvent(k)] = c17ShowActions(l)
		}
		var wr []map[string]any
		for k, v := range want {
			var l []map[string]any
			for _, a := range v {
				l = append(l, map[string]any{"t": int(a.t), "a": a.a})
			}
			wr = append(wr, map[string]any{"type": int(k.Type), "char": int(k.Char), "actions": l})
		}
		return map[string]any{"binds": binds, "want": w, "got": g, "form": form, "want_replay": wr}
	}
	if pan != "" {
		d := detail()
		d["panic"] = pan
		r.Violation("panic", d)
		return
	}
	if err != nil {
		d := detail()
		d["error"] = err.Error()
		r.Violation("bind:rejected:"+form, d)
		return
	}
	if len(km) != len(want) {
		r.Violation("bind:wrong-keys:"+form, detail())
		return
	}
	for k, w := range want {
		g, ok := km[k]
		if !ok {
			r.Violation("bind:wrong-keys:"+form, detail())
			return
		}
		if len(g) != len(w) {
			r.Violation("bind:action-count:"+form, detail())
			return
		}
		for i := range w {
			if g[i].t != w[i].t {
				r.Violation("bind:wrong-action:"+form, detail())
				return
			}
			if g[i].a != w[i].a {
				r.Violation("bind:argument-not-verbatim:"+form, detail())
				return
			}
		}
	}
	r.NT()
}

// all the context forms for one action list on one key; lastOpen = the list ends in the rest-of-string form
func c17Contexts(r *kit.Run, form string, k c17Key, l []c17Act, all bool) {
	text, want := c17RenderList(l), c17WantList(l)
	colonLast := l[len(l)-1].open == ":"
	up := []action{{actUp, ""}}
	down := []action{{actDown, ""}}
	c17Bind(r, form+"/alone", []string{k.text + ":" + text}, map[tui.Event][]action{k.ev: want})
	c17Bind(r, form+"/after-another-binding", []string{c17Other.text + ":down," + k.text + ":" + text}, map[tui.Event][]action{c17Other.ev: down, k.ev: want})
	if !colonLast {
		c17Bind(r, form+"/before-another-binding", []string{k.text + ":" + text + "," + c17Other.text + ":down"}, map[tui.Event][]action{c17Other.ev: down, k.ev: want})
		c17Bind(r, form+"/then-more-actions", []string{k.text + ":" + text + "+up"}, map[tui.Event][]action{k.ev: append(append([]action{}, want...), up...)})
	}
	if !all {
		return
	}
	c17Bind(r, form+"/after-other-actions", []string{k.text + ":up+" + text}, map[tui.Event][]action{k.ev: append(append([]action{}, up...), want...)})
	c17Bind(r, form+"/two-keys", []string{c17Third.text + "," + k.text + ":" + text}, map[tui.Event][]action{c17Third.ev: want, k.ev: want})
	c17Bind(r, form+"/appended-with-plus", []string{k.text + ":up", k.text + ":+" + text}, map[tui.Event][]action{k.ev: append(append([]action{}, up...), want...)})
	c17Bind(r, form+"/rebound-later", []string{k.text + ":up," + k.text + ":" + text}, map[tui.Event][]action{k.ev: want})
	c17Bind(r, form+"/rebound-in-second-option", []string{k.text + ":up", k.text + ":" + text}, map[tui.Event][]action{k.ev: want})
}

func c17BindReplay(r *kit.Run, d map[string]any) {
	var binds []string
	for _, x := range d["binds"].([]any) {
		binds = append(binds, x.(string))
	}
	want := map[tui.Event][]action{}
	for _, x := range d["want_replay"].([]any) {
		m := x.(map[string]any)
		ev := tui.Event{Type: tui.EventType(int(m["type"].(float64))), Char: rune(int(m["char"].(float64)))}
		l := []action{}
		acts, _ := m["actions"].([]any)
		for _, y := range acts {
			am := y.(map[string]any)
			l = append(l, action{actionType(int(am["t"].(float64))), am["a"].(string)})
		}
		want[ev] = l
	}
	form, _ := d["form"].(string)
	c17Bind(r, form, binds, want)
}

func TestVerif_C17_bind_names(t *testing.T) {
	r := kit.Start("C17", "bind-names")
	if r == nil {
		t.Skip()
	}
	defer r.Finish()
	if d := r.Replay(); d != nil {
		c17BindReplay(r, d)
		return
	}
	argless, argful := c17ActionTables(c17Source())
	var acts []c17Act
	for _, n := range c17Sorted(argless) {
		acts = append(acts, c17Act{name: n, types: argless[n]})
	}
	validated := map[string]string{"unbind": "ctrl-a,f1", "rebind": "a", "toggle-bind": "enter", "change-preview-window": "up|down,50%"}
	for _, n := range c17Sorted(argful) {
		arg := "x"
		if v, ok := validated[n]; ok {
			arg = v
		}
		acts = append(acts, c17Act{name: n, arg: arg, open: "(", types: []actionType{argful[n]}})
	}
	r.Param("action_names_without_argument", fmt.Sprint(len(argless)))
	r.Param("action_names_with_argument", fmt.Sprint(len(argful)))
	unit := 0
	// every name alone in every context on every key
	for ai, a := range acts {
		for _, k := range c17Keys {
			unit++
			if !r.Mine(unit) {
				continue
			}
			c17Contexts(r, "names-1", k, []c17Act{a}, true)
			// the argument forms of the validated actions
			if _, ok := validated[a.name]; ok {
				for _, op := range c17Opens {
					b := a
					b.open = op
					c17Contexts(r, "validated-argument", k, []c17Act{b}, false)
				}
			}
		}
		_ = ai
	}
	// "put" without argument on a printable key is the key's own character
	for _, k := range c17Keys {
		if k.ev.Type == tui.Rune {
			unit++
			if r.Mine(unit) {
				c17Contexts(r, "put-char", k, []c17Act{{name: "put", types: []actionType{actChar}}}, false) // (the two-key context would bind f3, which cannot take put)
			}
		}
	}
	// every ordered pair of names
	for i, a1 := range acts {
		if r.ExpiredNow() {
			return
		}
		for j, a2 := range acts {
			unit++
			if !r.Mine(unit) {
				continue
			}
			c17Contexts(r, "names-2", c17Keys[(i+j)%len(c17Keys)], []c17Act{a1, a2}, false)
		}
	}
	// triples over a core, every context, every key
	var core []c17Act
	for _, a := range acts {
		switch a.name {
		case "up", "toggle-down", "accept", "ignore", "put", "execute", "change-query", "reload", "track", "toggle-up", "change-multi", "search":
			core = append(core, a)
		}
	}
	for _, a1 := range core {
		for _, a2 := range core {
			for _, a3 := range core {
				for _, k := range c17Keys {
					unit++
					if !r.Mine(unit) {
						continue
					}
					if r.ExpiredNow() {
						return
					}
					c17Contexts(r, "names-3", k, []c17Act{a1, a2, a3}, true)
				}
			}
		}
	}
	if r.Shard == 0 {
		r.Sample(map[string]any{"bind": ",:toggle-down+execute(x)+up", "want": map[string][]string{"key ','": c17ShowActions([]action{{actToggle, ""}, {actDown, ""}, {actExecute, "x"}, {actUp, ""}})}})
	}
}

func c17ArgTexts(maxLen int) []string {
	var out []string
	kit.Strings([]rune{'a', ' ', '(', ')', '[', ']', '+', ',', ':', '~', '|', '{', '}'}, 0, maxLen, func(s []rune) bool {
		out = append(out, string(s))
		return true
	})
	return out
}

// longer arguments that look like bind syntax themselves
var c17SpecialArgs = []string{"+up", ",f2:down", "x:execute(y)", "put(a)", "a+reload(b", "up+down,f3:accept", "f1:execute:a", "'a b'", "\"", "echo {} | cat", "{+}", "é界", "a\tb", "a\nb"}

func TestVerif_C17_bind_args(t *testing.T) {
	r := kit.Start("C17", "bind-arguments")
	if r == nil {
		t.Skip()
	}
	defer r.Finish()
	if d := r.Replay(); d != nil {
		c17BindReplay(r, d)
		return
	}
	_, argful := c17ActionTables(c17Source())
	validated := map[string]bool{"unbind": true, "rebind": true, "toggle-bind": true, "change-preview-window": true}
	var names []string
	for _, n := range c17Sorted(argful) {
		if !validated[n] {
			names = append(names, n)
		}
	}
	short := append(c17ArgTexts(2), c17SpecialArgs...)
	long := append(c17ArgTexts(3), c17SpecialArgs...)
	coreLong := map[string]bool{"execute": true, "change-query": true, "put": true, "transform-header-label": true, "reload-sync": true, "pos": true}
	r.Param("actions", fmt.Sprint(len(names)))
	r.Param("argument_texts_len3", fmt.Sprint(len(long)))
	unit := 0
	for ni, n := range names {
		args := short
		if r.Thorough() || coreLong[n] {
			args = long
		}
		for oi, op := range c17Opens {
			unit++
			if !r.Mine(unit) {
				continue
			}
			if r.ExpiredNow() {
				return
			}
			cl := c17Close(op)
			for xi, arg := range args {
				if cl != "" && strings.Contains(arg, cl) {
					r.Count("arguments_excluded_contain_closing_delimiter")
					continue
				}
				k := c17Keys[(ni+oi+xi)%len(c17Keys)]
				a := c17Act{name: n, arg: arg, open: op, types: []actionType{argful[n]}}
				c17Contexts(r, "argument"+op, k, []c17Act{a}, true)
				if xi%7 == 0 {
					// two argument-taking actions in one list
					b := c17Act{name: "execute", arg: "x y", open: "[", types: []actionType{actExecute}}
					c17Contexts(r, "argument"+op+"/after-execute[x y]", k, []c17Act{b, a}, false)
					if op != ":" {
						c17Contexts(r, "argument"+op+"/before-execute[x y]", k, []c17Act{a, b}, false)
					}
				}
			}
		}
	}
	if r.Shard == 0 {
		r.Sample(map[string]any{"bind": "f2:down,+:up+change-query~a+b,:)~+up", "want": "key '+': actUp, actChangeQuery(\"a+b,:)\"), actUp; f2: actDown"})
	}
}
