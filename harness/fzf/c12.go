package fzf

// C12 - placeholders expand to shell words that evaluate back to the original text.
//
// The real replacePlaceholder expands `printf '%s\0' @B<i>@ <template> @E@`; the expansion is handed to the
// real /bin/sh (dash) and bash through Executor.ExecCommand, several hundred expansions per shell process.
// What the shell reports between the markers must be exactly the words the reference computes from the
// items, the query and the placeholder (one word per item, selection order, ordinals, trimmed fields,
// literal escaped placeholders). When a batch disagrees it is bisected to one failing expansion, which is
// then judged on its own (`$SHELL -c <expansion>`, exactly how fzf runs it).
// The shell's working directory contains bait files so that an unquoted * or ? changes the words.

import (
	"fmt"
	"math"
	"os"
	"path/filepath"
	"regexp"
	"sort"
	"strconv"
	"strings"
	"testing"
	"time"

	"github.com/junegunn/fzf/src/util"
	kit "github.com/junegunn/fzf/src/verifkit"
)

var c12Alpha = []rune{'\'', '"', ' ', '\n', '$', '`', '\\', '*', '?', ';', '&', '|', '(', ')', '<', '>', '!', '#', '~', '{', '}', 'a', '-', '=', '%', '\t'}
var c12Danger = []rune{'\'', '"', ' ', '\n', '$', '`', '\\', '*'}

var c12Extras = []string{"é", "日本", "\xff", "\xc3", "\r", "a\r\nb", "\x7f", "\x01", "\x1b[31m", "-n", "--", "-e", "\\n", "\\0", "%s", "$0", "$(b)", "`b`", "${a}", "a'b\"c", "''", "'\\''",
	"{}", "{q}", "{+}", "\\{}", "@E@", "@B0@", "~", "~root", "a=b", "!!", "!$", " lead", "trail ", "\ttab\t", " ", "a  b", "a \t b  c", "=a==b=", "\na", "a\n", strings.Repeat("'", 3000), strings.Repeat("a b ", 2000)}

// c12Texts: the enumerated texts. level 0 = quick, 1 = thorough.
func c12Texts(thorough bool) []string {
	seen := map[string]bool{}
	var out []string
	add := func(s string) {
		if !seen[s] {
			seen[s] = true
			out = append(out, s)
		}
	}
	add("")
	kit.Strings(c12Alpha, 1, 3, func(s []rune) bool { add(string(s)); return true })
	kit.Strings(c12Danger, 4, 4, func(s []rune) bool { add(string(s)); return true })
	for _, e := range c12Extras {
		add(e)
	}
	if thorough {
		kit.Strings(c12Alpha, 4, 4, func(s []rune) bool { add(string(s)); return true })
		kit.Strings(c12Danger, 5, 5, func(s []rune) bool { add(string(s)); return true })
	}
	return out
}

func c12Plain(s string) bool {
	for _, r := range s {
		switch r {
		case 'a', '-', '=', '%':
		default:
			return false
		}
	}
	return true
}

// ---------------------------------------------------------------- worlds (what fzf's state is)
type c12world struct {
	name                string
	all                 []*Item // allItems as Terminal.buildPlusList hands them over: current, then the selected ones
	query               string
	prompt              string
	delim               string
	force               bool
	x                   *util.Executor
	fieldReadingDiffers int
}

func c12Item(s string, idx int32) *Item {
	c := util.ToChars([]byte(s))
	c.Index = idx
	return &Item{text: c}
}

var c12WorldNames = []string{"cur", "sel1", "sel2", "sel3", "force2", "delim", "query", "initial", "nomatch"}

func c12World(name, s string) *c12world {
	w := &c12world{name: name, query: "q'$x y", prompt: "> "}
	switch name {
	case "cur": // nothing selected: + means the current item
		w.all = []*Item{c12Item(s, 3), c12Item(s, 3)}
	case "sel1":
		w.all = []*Item{c12Item("cur x", 5), c12Item(s, 3)}
	case "sel2":
		w.all = []*Item{c12Item(s, 3), c12Item(s, 3), c12Item("it's", 12)}
	case "sel3":
		w.all = []*Item{c12Item("$c", 9), c12Item("x y", 0), c12Item(s, 3), c12Item("", math.MaxInt32)}
	case "force2": // execute-multi: every placeholder behaves like +
		w.all = []*Item{c12Item("cur x", 5), c12Item(s, 3), c12Item("it's", 12)}
		w.force = true
	case "delim":
		w.all = []*Item{c12Item(s, 3), c12Item(s, 3)}
		w.delim = "="
	case "query": // the query and the prompt are []rune in fzf: always valid UTF-8
		w.all = []*Item{c12Item("it's", 1), c12Item("it's", 1)}
		w.query, w.prompt = string([]rune(s)), string([]rune(s))
	case "initial": // the initial command: no item at all
		w.all = []*Item{nil, nil}
		w.query = string([]rune(s))
	case "nomatch": // empty list: the current item is minItem
		w.all = []*Item{&minItem, &minItem}
		w.query = string([]rune(s))
	default:
		return nil
	}
	return w
}

var c12Templates = map[string][]string{
	"cur": {"{}", "{1}", "{-1}", "{2..}", "{s1}", "{s2..}", "{..}", "{n}", "{f}", "\\{}", "x{}y", "{+}", "{+1}", "{+n}", "{+f}", "{} {q} {n}",
		"--a={} \\{+} {+}", "\\{1} \\{n} \\{+f} \\{2..} \\{q:1} \\{fzf:query}", "{f1}"},
	"sel1":    {"{+}", "{+1}", "{+n}", "{+f}", "{}", "{+s-1}", "a{+}b"},
	"sel2":    {"{+}", "{+1}", "{+n}", "{+f}", "{}", "{+s-1}", "a{+}b"},
	"sel3":    {"{+}", "{+1}", "{+n}", "{+f}", "{}", "{+s-1}", "a{+}b", "{+f2..}"},
	"force2":  {"{}", "{1}", "{n}", "{f}"},
	"delim":   {"{1}", "{2}", "{-1}", "{2..}", "{s1}", "{+1}", "{1..2}"},
	"query":   {"{q}", "{q:1}", "{q:-1}", "{q:2..}", "{q:s1}", "{fzf:query}", "{fzf:prompt}", "x{q}y", "\\{q}", "{q}{q}", "{q} {}"},
	"initial": {"{q}", "{q} {} {+} {n} {1}", "{q:1}"},
	"nomatch": {"{q} {} {n}"},
}

// ---------------------------------------------------------------- reference
var c12AwkField = regexp.MustCompile(`[^ \t]+[ \t]*`)

func (w *c12world) items(plus bool) []*Item {
	cur, sel := w.all[:1], w.all[1:]
	if cur[0] == nil {
		cur = nil
	}
	if sel[0] == nil {
		sel = nil
	}
	if plus || w.force {
		return sel
	}
	return cur
}

// c12Field is the documented reading of a field index expression: fields are numbered from 1 (negative: from
// the end), a range joins the fields with what stood between them, surrounding whitespace is stripped
// unless the s flag is given.
func c12Field(text, rng string, preserve bool, delim string) (string, bool) {
	var fields []string
	if delim == "" {
		fields = c12AwkField.FindAllString(text, -1)
	} else {
		fields = strings.Split(text, delim)
	}
	n := len(fields)
	lo, hi := 1, n
	num := func(s string, def int) (int, bool) {
		if s == "" {
			return def, true
		}
		v, err := strconv.Atoi(s)
		if err != nil || v == 0 {
			return 0, false
		}
		if v < 0 {
			v += n + 1
		}
		return v, true
	}
	var ok1, ok2 bool
	if k := strings.Index(rng, ".."); k >= 0 {
		lo, ok1 = num(rng[:k], 1)
		hi, ok2 = num(rng[k+2:], n)
	} else {
		lo, ok1 = num(rng, 0)
		hi, ok2 = lo, ok1
	}
	if !ok1 || !ok2 {
		return "", false
	}
	if lo < 1 {
		lo = 1
	}
	if hi > n {
		hi = n
	}
	out := ""
	if lo <= hi {
		if delim == "" {
			out = strings.Join(fields[lo-1:hi], "")
		} else {
			out = strings.Join(fields[lo-1:hi], delim)
		}
	}
	if !preserve {
		out = strings.TrimSpace(out)
	}
	return out, true
}

type c12ph struct {
	words []string
	file  bool
	lines []string
}

func c12RefPlaceholder(spec string, w *c12world) (c12ph, bool) {
	inner := spec[1 : len(spec)-1]
	switch {
	case inner == "q" || inner == "fzf:query":
		return c12ph{words: []string{w.query}}, true
	case inner == "fzf:prompt":
		return c12ph{words: []string{w.prompt}}, true
	case strings.HasPrefix(inner, "q:"):
		rng, pres := inner[2:], false
		if strings.HasPrefix(rng, "s") {
			rng, pres = rng[1:], true
		}
		f, ok := c12Field(w.query, rng, pres, "")
		return c12ph{words: []string{f}}, ok
	}
	plus, pres, file := false, false, false
	for len(inner) > 0 && strings.ContainsRune("+sf", rune(inner[0])) {
		switch inner[0] {
		case '+':
			plus = true
		case 's':
			pres = true
		case 'f':
			file = true
		}
		inner = inner[1:]
	}
	var vals []string
	for _, it := range w.items(plus) {
		txt := it.text.ToString()
		switch {
		case inner == "n":
			if it == &minItem {
				vals = append(vals, "")
			} else {
				vals = append(vals, strconv.Itoa(int(it.text.Index)))
			}
		case inner == "":
			vals = append(vals, txt)
		default:
			// What the field IS is the tokenizer's business (another property); here it is by definition what
			// the same expression yields with the r (raw, unquoted) flag for this one item. The documented
			// reading is computed as well and disagreements are counted in the evidence.
			f, ok := c12Field(txt, inner, pres, w.delim)
			if !ok {
				return c12ph{}, false
			}
			raw := w.rawField(it, inner, pres)
			if raw != f {
				w.fieldReadingDiffers++
			}
			vals = append(vals, raw)
		}
	}
	if file {
		return c12ph{file: true, lines: vals}, true
	}
	return c12ph{words: vals}, true
}

func (w *c12world) rawField(it *Item, rng string, pres bool) string {
	fl := "r"
	if pres {
		fl = "rs"
	}
	d := Delimiter{}
	if w.delim != "" {
		d.str = &w.delim
	}
	out, _ := replacePlaceholder(replacePlaceholderParams{template: "{" + fl + rng + "}", delimiter: d, printsep: "\n", allItems: []*Item{it, it}, executor: w.x})
	return out
}

const c12FileWord = "\x00FILE"

// c12Want computes the words a shell must see for the template T (templates contain only plain literal
// characters, blanks, placeholders and escaped placeholders).
func c12Want(T string, w *c12world) (words []string, files [][]string, ok bool) {
	cur, has := "", false
	flush := func() {
		if has {
			words = append(words, cur)
		}
		cur, has = "", false
	}
	for i := 0; i < len(T); {
		ch := T[i]
		switch {
		case ch == ' ':
			flush()
			i++
		case ch == '\\' && i+1 < len(T) && T[i+1] == '{':
			j := strings.IndexByte(T[i:], '}')
			cur += T[i+1 : i+j+1]
			has = true
			i += j + 1
		case ch == '{':
			j := strings.IndexByte(T[i:], '}')
			ph, good := c12RefPlaceholder(T[i:i+j+1], w)
			if !good {
				return nil, nil, false
			}
			i += j + 1
			ws := ph.words
			if ph.file {
				ws = []string{c12FileWord}
				files = append(files, ph.lines)
			}
			for k, x := range ws {
				if k > 0 {
					flush()
				}
				cur += x
				has = true
			}
		default:
			cur += string(ch)
			has = true
			i++
		}
	}
	flush()
	return words, files, true
}

// ---------------------------------------------------------------- one expansion
type c12exp struct {
	wname, text, T string
	id             int
	fieldDiff      int
	script         string
	tmp            []string
	want           []string
	files          [][]string
	cat            string // the file placeholder that is also read back by the shell
	panicked       string
}

var c12FilePH = regexp.MustCompile(`\{\+?f[0-9.]*\}`)

func c12Expand(x *util.Executor, wname, text, T string, id int) *c12exp {
	e := &c12exp{wname: wname, text: text, T: T, id: id}
	w := c12World(wname, text)
	w.x = x
	var ok bool
	e.want, e.files, ok = c12Want(T, w)
	if !ok {
		panic("harness: template not understood by the reference: " + T)
	}
	e.fieldDiff = w.fieldReadingDiffers
	full := fmt.Sprintf("printf '%%s\\0' @B%d@ %s @E@", id, T)
	if !strings.Contains(T, "\\{+f}") {
		e.cat = c12FilePH.FindString(T)
	}
	if e.cat != "" {
		// read the file back inside the shell (builtins only: no process per expansion)
		full += "; while IFS= read -r l; do printf '%s\\n' \"$l\"; done < " + e.cat + "; printf '\\0@F@\\0'"
		e.files = append(e.files, e.files[0])
	}
	d := Delimiter{}
	if w.delim != "" {
		d.str = &w.delim
	}
	func() {
		defer func() {
			if p := recover(); p != nil {
				e.panicked = fmt.Sprint(p)
			}
		}()
		e.script, e.tmp = replacePlaceholder(replacePlaceholderParams{template: full, delimiter: d, printsep: "\n", forcePlus: w.force,
			query: w.query, allItems: w.all, prompt: w.prompt, executor: x, lastAction: actStart})
	}()
	return e
}

func (e *c12exp) detail(shell string) map[string]any {
	return map[string]any{"shell": shell, "world": e.wname, "template": e.T, "text_quoted": strconv.Quote(e.text), "expansion_quoted": strconv.Quote(c12Clip(e.script))}
}

func c12Clip(s string) string {
	if len(s) > 600 {
		return s[:300] + "...(" + strconv.Itoa(len(s)) + " bytes)..." + s[len(s)-200:]
	}
	return s
}

func c12Class(T string) string {
	if c12FilePH.MatchString(T) && !strings.Contains(T, "\\{+f}") {
		return "file:" + T
	}
	return "argv:" + T
}

// ---------------------------------------------------------------- shells
type c12shell struct {
	path string
	x    *util.Executor
	dir  string
	runs int
}

func c12NewShell(path string) *c12shell {
	os.Setenv("SHELL", path)
	x := util.NewExecutor("")
	dir, _ := os.Getwd()
	dir = filepath.Join(dir, "shell-cwd")
	os.MkdirAll(dir, 0o755)
	for _, f := range []string{"b", "bait.txt", "-bait"} {
		os.WriteFile(filepath.Join(dir, f), []byte("bait\n"), 0o644)
	}
	return &c12shell{path: path, x: x, dir: dir}
}

func (s *c12shell) run(script string) ([]byte, error) {
	s.runs++
	cmd := s.x.ExecCommand(script, false)
	cmd.Dir = s.dir
	// stdout goes to a file, not a pipe: the shell issues one small write per printf
	outPath := filepath.Join(s.dir, "..", "c12-shell-stdout")
	f, err := os.OpenFile(outPath, os.O_CREATE|os.O_TRUNC|os.O_RDWR, 0o600)
	if err != nil {
		return nil, err
	}
	defer f.Close()
	cmd.Stdout = f
	if err := cmd.Start(); err != nil {
		return nil, err
	}
	t := time.AfterFunc(120*time.Second, func() { cmd.Process.Kill() })
	err = cmd.Wait()
	t.Stop()
	out, rerr := os.ReadFile(outPath)
	if rerr != nil {
		return nil, rerr
	}
	return out, err
}

// parse the output of a batch; ok=false when the marker structure is broken
func c12Parse(out []byte, exps []*c12exp) (got [][]string, cats []string, ok bool) {
	recs := strings.Split(string(out), "\x00")
	if len(recs) == 0 || recs[len(recs)-1] != "" {
		return nil, nil, false
	}
	recs = recs[:len(recs)-1]
	p := 0
	for _, e := range exps {
		if p >= len(recs) || recs[p] != "@B"+strconv.Itoa(e.id)+"@" {
			return nil, nil, false
		}
		p++
		var ws []string
		for {
			if p >= len(recs) {
				return nil, nil, false
			}
			if recs[p] == "@E@" && (len(ws) >= len(e.want) || !c12Contains(e.want[len(ws):], "@E@")) {
				break
			}
			ws = append(ws, recs[p])
			p++
		}
		p++
		got = append(got, ws)
		if e.cat != "" {
			if p+1 >= len(recs) || recs[p+1] != "@F@" {
				return nil, nil, false
			}
			cats = append(cats, recs[p])
			p += 2
		} else {
			cats = append(cats, "")
		}
	}
	return got, cats, p == len(recs)
}

func c12Contains(l []string, s string) bool {
	for _, x := range l {
		if x == s {
			return true
		}
	}
	return false
}

// compare one expansion; returns "" when it is right
func (e *c12exp) compare(got []string, cat string, tmpdir string) string {
	if len(got) != len(e.want) {
		return fmt.Sprintf("%d words instead of %d", len(got), len(e.want))
	}
	fi := 0
	for i, w := range e.want {
		if w == c12FileWord {
			if fi >= len(e.tmp) || got[i] != e.tmp[fi] || !strings.HasPrefix(filepath.Base(got[i]), "fzf-temp-") || filepath.Dir(got[i]) != tmpdir {
				return fmt.Sprintf("word %d is not the temporary file reported by replacePlaceholder", i)
			}
			b, err := os.ReadFile(got[i])
			if err != nil {
				return "temporary file unreadable: " + err.Error()
			}
			if string(b) != strings.Join(e.files[fi], "\n")+"\n" {
				return fmt.Sprintf("content of the temporary file is %q", c12Clip(string(b)))
			}
			fi++
			continue
		}
		if got[i] != w {
			return fmt.Sprintf("word %d differs", i)
		}
	}
	if e.cat != "" {
		if cat != strings.Join(e.files[len(e.files)-1], "\n")+"\n" {
			return fmt.Sprintf("the shell read %q from the temporary file", c12Clip(cat))
		}
	}
	nf := len(e.files)
	if len(e.tmp) != nf {
		return fmt.Sprintf("%d temporary files reported for %d file placeholders", len(e.tmp), nf)
	}
	return ""
}

type c12runner struct {
	r      *kit.Run
	sh     *c12shell
	tmpdir string
	budget int // bisection runs left in this shard
}

func (q *c12runner) report(e *c12exp, why string, got []string) {
	d := e.detail(q.sh.path)
	d["why"] = why
	d["want_quoted"] = c12QuoteList(e.want)
	d["got_quoted"] = c12QuoteList(got)
	q.r.Violation(c12Class(e.T), d)
}

func c12QuoteList(l []string) []string {
	out := make([]string, 0, len(l))
	for i, s := range l {
		if i >= 12 {
			out = append(out, "...")
			break
		}
		if s == c12FileWord {
			s = "<temporary file>"
		}
		out = append(out, strconv.Quote(c12Clip(s)))
	}
	return out
}

// single judges one expansion on its own: $SHELL -c <expansion>
func (q *c12runner) single(e *c12exp) bool {
	out, err := q.sh.run(e.script)
	got, cats, ok := c12Parse(out, []*c12exp{e})
	if err != nil || !ok {
		recs := strings.Split(string(out), "\x00")
		q.report(e, fmt.Sprintf("the shell did not report the marker structure (error: %v)", err), recs)
		return false
	}
	if why := e.compare(got[0], cats[0], q.tmpdir); why != "" {
		q.report(e, why, got[0])
		return false
	}
	return true
}

// batch runs the expansions in one shell process; returns the number of failing expansions found.
func (q *c12runner) batch(exps []*c12exp) {
	var sb strings.Builder
	for _, e := range exps {
		if e.panicked != "" {
			d := e.detail(q.sh.path)
			d["panic"] = e.panicked
			q.r.Violation("panic", d)
			continue
		}
		sb.WriteString(e.script)
		sb.WriteByte('\n')
	}
	out, err := q.sh.run(sb.String())
	got, cats, ok := c12Parse(out, exps)
	if err == nil && ok {
		for i, e := range exps {
			if why := e.compare(got[i], cats[i], q.tmpdir); why != "" {
				// the batch context can only blur things when quoting is broken: judge it alone
				if q.budget > 0 {
					q.budget--
					if q.single(e) {
						q.report(e, "wrong inside a batch but right on its own: "+why, got[i])
					}
				} else {
					q.report(e, why+" (seen inside a batch)", got[i])
				}
			}
		}
		return
	}
	// structure broken: find the first culprit by bisection
	cls := c12Class(exps[0].T)
	if q.r.VClasses[cls] >= 5 || q.budget <= 0 {
		e := exps[0]
		d := e.detail(q.sh.path)
		d["why"] = fmt.Sprintf("a batch of %d expansions starting with this one broke the shell's marker structure; not bisected (the class has examples already)", len(exps))
		q.r.Violation(cls, d)
		return
	}
	q.bisect(exps)
}

func (q *c12runner) bad(part []*c12exp) bool {
	var sb strings.Builder
	for _, e := range part {
		sb.WriteString(e.script)
		sb.WriteByte('\n')
	}
	out, err := q.sh.run(sb.String())
	got, cats, ok := c12Parse(out, part)
	if err != nil || !ok {
		return true
	}
	for i, e := range part {
		if e.compare(got[i], cats[i], q.tmpdir) != "" {
			return true
		}
	}
	return false
}

// bisect narrows a failing batch down to its first failing expansion and judges that one alone.
func (q *c12runner) bisect(exps []*c12exp) {
	for len(exps) > 1 {
		q.budget--
		half := len(exps) / 2
		if q.bad(exps[:half]) {
			exps = exps[:half]
		} else {
			exps = exps[half:]
		}
	}
	if q.single(exps[0]) {
		q.r.Count("batch_failures_not_reproduced_alone")
	}
}

func c12Cleanup(exps []*c12exp) {
	for _, e := range exps {
		removeFiles(e.tmp)
	}
}

func c12Leftovers(tmpdir string) []string {
	m, _ := filepath.Glob(filepath.Join(tmpdir, "fzf-temp-*"))
	return m
}

// ---------------------------------------------------------------- layer: placeholders through dash and bash
var c12Shells = []string{"/bin/sh", "/bin/bash"}

func TestVerif_C12_placeholders(t *testing.T) {
	r := kit.Start("C12", "placeholders")
	if r == nil {
		t.Skip()
	}
	defer r.Finish()
	tmpdir := filepath.Clean(os.TempDir())
	if d := r.Replay(); d != nil {
		shell, _ := d["shell"].(string)
		wname, _ := d["world"].(string)
		T, _ := d["template"].(string)
		tq, _ := d["text_quoted"].(string)
		text, err := strconv.Unquote(tq)
		if err != nil || c12World(wname, "") == nil {
			r.Note("replay file does not describe a placeholder case")
			return
		}
		sh := c12NewShell(shell)
		q := &c12runner{r: r, sh: sh, tmpdir: tmpdir, budget: 10}
		e := c12Expand(sh.x, wname, text, T, 0)
		q.single(e)
		r.Eval()
		c12Cleanup([]*c12exp{e})
		return
	}
	texts := c12Texts(r.Thorough())
	r.Param("texts", strconv.Itoa(len(texts)))
	ntmpl := 0
	for _, wn := range c12WorldNames {
		ntmpl += len(c12Templates[wn])
	}
	r.Param("templates_per_text", strconv.Itoa(ntmpl))
	r.Param("shells", strings.Join(c12Shells, " "))
	const batch = 400
	unit := 0
	var runners []*c12runner
	for _, shp := range c12Shells {
		runners = append(runners, &c12runner{r: r, sh: c12NewShell(shp), tmpdir: tmpdir, budget: 400})
	}
	defer func() {
		for _, q := range runners {
			r.CountN("shell_processes", q.sh.runs)
		}
	}()
	// shortest texts first: a time cap cuts off the longest texts, never a template or a shell
	for st := 0; st < len(texts); st += batch {
		en := st + batch
		if en > len(texts) {
			en = len(texts)
		}
		for _, q := range runners {
			sh, shp := q.sh, q.sh.path
			for _, wn := range c12WorldNames {
				for _, T := range c12Templates[wn] {
					unit++
					if !r.Mine(unit) {
						continue
					}
					if r.ExpiredNow() {
						r.Param("time_cap_reached_at_text", strconv.Quote(c12Clip(texts[st])))
						return
					}
					exps := make([]*c12exp, 0, en-st)
					size := 0
					flush := func() {
						if len(exps) == 0 {
							return
						}
						q.batch(exps)
						c12Cleanup(exps)
						exps, size = exps[:0], 0
					}
					for i := st; i < en; i++ {
						e := c12Expand(sh.x, wn, texts[i], T, i)
						if size+len(e.script) > 96*1024 {
							flush()
						}
						exps = append(exps, e)
						size += len(e.script) + 1
						r.Eval()
						if !c12Plain(texts[i]) {
							r.NT()
						}
						r.CountN("words_checked", len(e.want))
						if e.fieldDiff > 0 {
							r.CountN("field_text_differs_from_documented_reading(not C12)", e.fieldDiff)
						}
						if len(e.tmp) > 0 {
							r.CountN("temporary_files", len(e.tmp))
						}
					}
					if st == 0 && wn == "sel3" && T == "{+}" && len(exps) > 5 {
						e := exps[5]
						r.Sample(map[string]any{"shell": shp, "world": wn, "template": T, "text": e.text, "expansion": e.script, "words": c12QuoteList(e.want)})
					}
					flush()
					r.State()
				}
			}
		}
	}
	if left := c12Leftovers(tmpdir); len(left) > 0 {
		r.Violation("temporary-file-not-reported", map[string]any{"left_in_TMPDIR": len(left), "first": left[0]})
	}
}

// ---------------------------------------------------------------- layer: escapeSingleQuote and the tmux re-launch
const c12FakeTmux = `#!/bin/sh
# stands in for tmux: "display-popup ... <sh> <script>": run the script the way a popup does, i.e. NOT in the
# caller's environment (a popup inherits the tmux server's), so that the export lines of the script matter
for a in "$@"; do shell=$script; script=$a; done
exec env -i PATH="$PATH" "$shell" "$script"
`
const c12Helper = `#!/bin/sh
# stands in for the re-launched fzf: report argv and environment
printf '%s\0' "$@" > "$C12_ARGV_OUT"
env -0 > "$C12_ENV_OUT"
`

func TestVerif_C12_relaunch(t *testing.T) {
	r := kit.Start("C12", "relaunch")
	if r == nil {
		t.Skip()
	}
	defer r.Finish()
	texts := c12Texts(r.Thorough())
	only := ""
	replaying := false
	if d := r.Replay(); d != nil {
		tq, _ := d["text_quoted"].(string)
		u, err := strconv.Unquote(tq)
		if err != nil {
			r.Note("replay file does not describe a relaunch case")
			return
		}
		only, replaying = u, true
		texts = []string{only}
	}
	r.Param("texts", strconv.Itoa(len(texts)))
	tmpdir := filepath.Clean(os.TempDir())

	// (1) escapeSingleQuote, as an argument word and as an `export NAME=` value, through both shells
	const batch = 500
	unit := 0
	for _, shp := range c12Shells {
		sh := c12NewShell(shp)
		for st := 0; st < len(texts); st += batch {
			unit++
			if !r.Mine(unit) {
				continue
			}
			if r.ExpiredNow() {
				return
			}
			en := st + batch
			if en > len(texts) {
				en = len(texts)
			}
			line := func(i int) string {
				q := escapeSingleQuote(texts[i])
				return fmt.Sprintf("export V=%s; printf '%%s\\0' @B%d@ \"$V\" %s @E@", q, i, q)
			}
			check := func(lo, hi int) (bad []int, broken bool) {
				var sb strings.Builder
				for i := lo; i < hi; i++ {
					sb.WriteString(line(i))
					sb.WriteByte('\n')
				}
				out, err := sh.run(sb.String())
				recs := strings.Split(string(out), "\x00")
				if err != nil || len(recs) != 4*(hi-lo)+1 {
					return nil, true
				}
				for i := lo; i < hi; i++ {
					k := 4 * (i - lo)
					if recs[k] != "@B"+strconv.Itoa(i)+"@" || recs[k+3] != "@E@" {
						return nil, true
					}
					if recs[k+1] != texts[i] || recs[k+2] != texts[i] {
						bad = append(bad, i)
					}
				}
				return bad, false
			}
			var find func(lo, hi, depth int)
			find = func(lo, hi, depth int) {
				bad, broken := check(lo, hi)
				r.Count("shell_processes")
				if broken && hi-lo > 1 && depth < 12 {
					mid := (lo + hi) / 2
					find(lo, mid, depth+1)
					if r.VClasses["escapeSingleQuote"] < 8 {
						find(mid, hi, depth+1)
					}
					return
				}
				if broken {
					bad = []int{lo}
				}
				for _, i := range bad {
					r.Violation("escapeSingleQuote", map[string]any{"shell": shp, "text_quoted": strconv.Quote(texts[i]), "quoted_quoted": strconv.Quote(c12Clip(escapeSingleQuote(texts[i])))})
				}
			}
			find(st, en, 0)
			r.Evals(2 * (en - st))
			for i := st; i < en; i++ {
				if !c12Plain(texts[i]) {
					r.NT()
				}
			}
		}
	}

	// (2) the real runTmux with a stand-in tmux on PATH: what the re-launched program sees as argv and
	// environment must be the original arguments and environment values
	bin := filepath.Join(tmpdir, "c12 bin's $(b)") // the path of the program is quoted like every argument
	os.MkdirAll(bin, 0o755)
	os.WriteFile(filepath.Join(bin, "tmux"), []byte(c12FakeTmux), 0o755)
	helper := filepath.Join(bin, "fzf helper")
	os.WriteFile(helper, []byte(c12Helper), 0o755)
	oldPath := os.Getenv("PATH")
	os.Setenv("PATH", bin+":"+oldPath)
	defer os.Setenv("PATH", oldPath)
	null, _ := os.Open(os.DevNull)
	oldStdin := os.Stdin
	os.Stdin = null
	defer func() { os.Stdin = oldStdin; null.Close() }()
	argvOut, envOut := filepath.Join(tmpdir, "c12-argv.out"), filepath.Join(tmpdir, "c12-env.out")
	os.Setenv("C12_ARGV_OUT", argvOut)
	os.Setenv("C12_ENV_OUT", envOut)
	r.Sample(map[string]any{"relaunch": "runTmux([helper, texts...]) with a stand-in tmux that runs the generated script under env -i", "helper": helper})
	const rb = 250
	for st := 0; st < len(texts); st += rb {
		unit++
		if !r.Mine(unit) {
			continue
		}
		if r.ExpiredNow() {
			return
		}
		en := st + rb
		if en > len(texts) {
			en = len(texts)
		}
		var run func(lo, hi int)
		run = func(lo, hi int) {
			os.Remove(argvOut)
			os.Remove(envOut)
			args := []string{helper}
			var names []string
			for i := lo; i < hi; i++ {
				if len(texts[i]) > 100000 {
					continue
				}
				args = append(args, texts[i])
				if !strings.Contains(texts[i], "\x00") {
					n := fmt.Sprintf("C12V%d", i)
					os.Setenv(n, texts[i])
					names = append(names, n)
				}
			}
			opts := defaultOptions()
			opts.Tmux = defaultTmuxOptions(0)
			var code int
			var err error
			var pan string
			func() {
				defer func() {
					if p := recover(); p != nil {
						pan = fmt.Sprint(p)
					}
				}()
				code, err = runTmux(args, opts)
			}()
			r.Count("runTmux_calls")
			argvB, _ := os.ReadFile(argvOut)
			envB, _ := os.ReadFile(envOut)
			for _, n := range names {
				os.Unsetenv(n)
			}
			argv := strings.Split(string(argvB), "\x00")
			envm := map[string]string{}
			for _, kv := range strings.Split(string(envB), "\x00") {
				if k := strings.Index(kv, "="); k > 0 {
					envm[kv[:k]] = kv[k+1:]
				}
			}
			fail := func(cls string, i int, extra map[string]any) {
				d := map[string]any{"text_quoted": strconv.Quote(c12Clip(texts[i])), "runTmux_exit": code, "runTmux_error": fmt.Sprint(err)}
				for k, v := range extra {
					d[k] = v
				}
				r.Violation(cls, d)
			}
			if pan != "" {
				fail("panic", lo, map[string]any{"panic": pan})
				return
			}
			// argv: [--bind=ctrl-z:ignore, texts..., --border, --no-tmux, --no-height, --no-force-tty-in, --proxy-script, <script>]
			want := append([]string{"--bind=ctrl-z:ignore"}, args[1:]...)
			want = append(want, "--border", "--no-tmux", "--no-height", "--no-force-tty-in", "--proxy-script")
			okArgv := len(argv) == len(want)+2 && argv[len(argv)-1] == ""
			if okArgv {
				for k := range want {
					if argv[k] != want[k] {
						okArgv = false
					}
				}
			}
			okEnv := true
			for _, n := range names {
				i, _ := strconv.Atoi(n[4:])
				if v, has := envm[n]; !has || v != texts[i] {
					okEnv = false
				}
			}
			if okArgv && okEnv && err == nil && code == 0 {
				return
			}
			if hi-lo > 1 {
				mid := (lo + hi) / 2
				run(lo, mid)
				if r.NViolations() < 6 {
					run(mid, hi)
				}
				return
			}
			if !okArgv {
				fail("tmux-relaunch-argument", lo, map[string]any{"argv_quoted": c12QuoteList(argv)})
			}
			if !okEnv {
				fail("tmux-relaunch-environment", lo, map[string]any{"value_quoted": strconv.Quote(c12Clip(envm[fmt.Sprintf("C12V%d", lo)]))})
			}
			if okArgv && okEnv {
				fail("tmux-relaunch-failed", lo, nil)
			}
		}
		run(st, en)
		r.Evals(2 * (en - st))
		r.State()
	}
	os.Remove(argvOut)
	os.Remove(envOut)
	if m, _ := filepath.Glob(filepath.Join(tmpdir, "fzf-*")); len(m) > 0 && !replaying {
		sort.Strings(m)
		r.Violation("relaunch-leaves-files", map[string]any{"left_in_TMPDIR": len(m), "first": m[0]})
	}
	os.RemoveAll(bin)
}

// ---------------------------------------------------------------- layer: the fish escaper, structurally
// fish is not installed. Its single-quote rule (fishshell.com/docs/current/language.html#quotes): inside
// '...' only \' and \\ are escape sequences; every other character, including a backslash followed by
// anything else, is literal. The decoder below is that rule.
func c12FishDecode(q string) (string, bool) {
	if len(q) < 2 || q[0] != '\'' || q[len(q)-1] != '\'' {
		return "", false
	}
	in := q[1 : len(q)-1]
	var sb strings.Builder
	for i := 0; i < len(in); i++ {
		switch {
		case in[i] == '\\' && i+1 < len(in) && (in[i+1] == '\\' || in[i+1] == '\''):
			sb.WriteByte(in[i+1])
			i++
		case in[i] == '\'':
			return "", false // the quote would end here
		case in[i] == '\\' && i+1 == len(in):
			return "", false // would escape the closing quote
		default:
			sb.WriteByte(in[i])
		}
	}
	return sb.String(), true
}

func TestVerif_C12_fish(t *testing.T) {
	r := kit.Start("C12", "fish-structural")
	if r == nil {
		t.Skip()
	}
	defer r.Finish()
	texts := c12Texts(r.Thorough())
	if d := r.Replay(); d != nil {
		tq, _ := d["text_quoted"].(string)
		u, err := strconv.Unquote(tq)
		if err != nil {
			return
		}
		texts = []string{u}
	}
	r.Note("fish is not installed: the fish branch of the escaper is checked against the documented single-quote rule only, not by a shell")
	var xs []*util.Executor
	os.Setenv("SHELL", "/usr/bin/fish")
	xs = append(xs, util.NewExecutor(""))
	os.Setenv("SHELL", "/bin/sh")
	xs = append(xs, util.NewExecutor("/usr/local/bin/fish -c"), util.NewExecutor("fish"))
	for i, s := range texts {
		if !r.Mine(i) {
			continue
		}
		for xi, x := range xs {
			q := x.QuoteEntry(s)
			back, ok := c12FishDecode(q)
			r.Eval()
			if !ok || back != s {
				r.Violation("fish-quoting", map[string]any{"executor": xi, "text_quoted": strconv.Quote(c12Clip(s)), "quoted_quoted": strconv.Quote(c12Clip(q))})
			}
		}
		if !c12Plain(s) {
			r.NT()
		}
	}
	r.Sample(map[string]any{"text": "a'\\", "fish_quoted": xs[0].QuoteEntry("a'\\")})
}
