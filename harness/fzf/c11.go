package fzf

// C11 - --ansi strips escape sequences only and colours the right characters.
//
// Layer "bytes":   every byte string up to a bound over a 20-symbol alphabet (and, because the shortest
//                  OSC sequence is longer than that bound, ESC ] followed by every short string over an
//                  OSC-oriented alphabet): robustness, scanner == documented regular expression,
//                  stripping == removing the regex matches, span well-formedness.
// Layer "grammar": lines generated from a grammar of text chunks and well-formed sequences, evaluated
//                  after 0-2 earlier lines (carried-over state): stripped text == the text chunks,
//                  per-character (fg, bg, attributes, hyperlink) == an independent SGR interpreter that
//                  works on the STRUCTURE the sequence was rendered from (never on the bytes).

import (
	"fmt"
	"regexp"
	"strconv"
	"strings"
	"testing"
	"unicode/utf8"

	"github.com/junegunn/fzf/src/tui"
	kit "github.com/junegunn/fzf/src/verifkit"
)

// the regular expression documented above nextAnsiEscapeSequence in src/ansi.go ("is equivalent to
// calling FindStringIndex() on the below regex"), copied verbatim
//
// c11Regex is used on grammar-generated (well-formed) input. On arbitrary bytes the reference is c11RegexBytes:
// the same expression plus the one leniency the code documents in matchOperatingSystemCommand - an OSC-8
// close whose string terminator lost its backslash, "ESC ] 8 ; ; ESC", is one sequence (the alternative
// stands after the OSC alternative, so a proper ESC \ terminator still wins). It only concerns malformed
// input, and it keeps the text that follows.
var c11RegexBytes = regexp.MustCompile("(?:\x1b[\\[()][0-9;:?]*[a-zA-Z@]|\x1b][0-9]+[;:][[:print:]]+(?:\x1b\\\\|\x07)|\x1b]8;;\x1b|\x1b.|[\x0e\x0f]|.\x08)")

var c11Regex = regexp.MustCompile("(?:\x1b[\\[()][0-9;:?]*[a-zA-Z@]|\x1b][0-9]+[;:][[:print:]]+(?:\x1b\\\\|\x07)|\x1b.|[\x0e\x0f]|.\x08)")

var c11Alphabet = []byte{0x1b, '[', ']', '(', 'm', 'K', ';', ':', '0', '1', '3', '8', 'a', 0x08, 0x0e, '\n', 0x07, '\\', 0xc3, 0xa9}

// after ESC ] : digits, separators, printable, both terminators, and the characters that end or break a sequence
var c11OscAlphabet = []byte{'0', '8', ';', ':', 'a', ' ', 0x1b, '\\', 0x07, '\n', 0x08, 0xc3}

// which alternative of the documented expression a matched piece belongs to
func c11Alt(m string) string {
	switch {
	case m == "\x0e" || m == "\x0f":
		return "shift"
	case m[0] != 0x1b:
		return "backspace"
	case len(m) >= 3 && (m[1] == '[' || m[1] == '(' || m[1] == ')') && m[len(m)-1] != 0x1b && c11CsiBody(m[2:]):
		return "csi"
	case len(m) > 3 && m[1] == ']' && (m[len(m)-1] == 0x07 || strings.HasSuffix(m, "\x1b\\")):
		return "osc"
	case m == "\x1b]8;;\x1b":
		return "osc8-close-bare-esc"
	}
	return "esc2"
}

func c11CsiBody(b string) bool {
	for i := 0; i < len(b)-1; i++ {
		if !strings.ContainsRune("0123456789;:?", rune(b[i])) {
			return false
		}
	}
	c := b[len(b)-1]
	return 'a' <= c && c <= 'z' || 'A' <= c && c <= 'Z' || c == '@'
}

func c11SpansOK(offs *[]ansiOffset, runes int) bool {
	if offs == nil {
		return true
	}
	prev := int32(0)
	for _, o := range *offs {
		if o.offset[0] < prev || o.offset[1] < o.offset[0] || int(o.offset[1]) > runes {
			return false
		}
		prev = o.offset[1]
	}
	return true
}

func c11Spans(offs *[]ansiOffset) [][2]int32 {
	var out [][2]int32
	if offs != nil {
		for _, o := range *offs {
			out = append(out, o.offset)
		}
	}
	return out
}

var c11Carry = ansiState{fg: 1, bg: -1, attr: 0, lbg: -1}

func c11CheckBytes(r *kit.Run, s string) {
	det := func() map[string]any { return map[string]any{"input": s, "input_quoted": strconv.Quote(s)} }
	defer func() {
		if e := recover(); e != nil {
			d := det()
			d["panic"] = fmt.Sprint(e)
			r.Violation("panic", d)
		}
	}()
	r.Eval()
	st, en := nextAnsiEscapeSequence(s)
	if !(st == -1 && en == -1) && !(0 <= st && st < en && en <= len(s)) {
		d := det()
		d["got"] = []int{st, en}
		r.Violation("scanner:range-malformed", d)
		return
	}
	ws, we := -1, -1
	alt := "none"
	if loc := c11RegexBytes.FindStringIndex(s); loc != nil {
		ws, we = loc[0], loc[1]
		alt = c11Alt(s[ws:we])
		r.NT()
	}
	r.Outcome("first=" + alt)
	if st != ws || en != we {
		d := det()
		d["scanner"], d["reference"], d["reference_alternative"] = []int{st, en}, []int{ws, we}, alt
		r.Violation("scanner!=regex:"+alt, d)
	}
	want := c11RegexBytes.ReplaceAllString(s, "")
	plain := !strings.ContainsAny(s, "\x1b\x08\x0e\x0f")
	for pass := 0; pass < 2; pass++ {
		var state *ansiState
		if pass == 1 {
			c := c11Carry
			state = &c
		}
		text, offs, _ := extractColor(s, state, nil)
		if plain && text != s {
			d := det()
			d["got"], d["carried_state"] = text, pass == 1
			r.Violation("strip:text-without-control-characters-altered", d)
		} else if text != want {
			d := det()
			d["got"], d["want"], d["carried_state"] = text, want, pass == 1
			cls := "strip:keeps-part-of-a-sequence"
			if len(text) < len(want) {
				cls = "strip:swallows-text"
			}
			r.Violation(cls, d)
		}
		if !c11SpansOK(offs, utf8.RuneCountInString(text)) {
			d := det()
			d["spans"], d["text"], d["carried_state"] = c11Spans(offs), text, pass == 1
			cls := "spans:malformed"
			if text == want && c11JoinedFragments(s, text, offs) {
				cls = "spans:beyond-text:removed-sequence-joins-utf8-fragments"
			}
			r.Violation(cls, d)
		}
		if pass == 1 && (offs == nil || len(*offs) == 0 || (*offs)[0].offset[0] != 0) {
			d := det()
			d["spans"] = c11Spans(offs)
			r.Violation("spans:carried-state-dropped", d)
		}
	}
}

// Exact shape of known finding D23: the input is invalid UTF-8 in which a removed sequence separates bytes
// that form ONE valid multi-byte rune once joined. extractColor counts runes fragment by fragment, so
//   - the spans are well-formed in fragment coordinates (ordered, non-overlapping, within the fragments' total),
//   - every span boundary that lies beyond the joined text is a fragment count at a sequence boundary (or the total),
//   - the total of the fragments' rune counts exceeds the rune count of the joined text, and at least one
//     join point lies strictly inside a valid multi-byte rune of the joined text.
//
// Any other span beyond the text is class spans:malformed.
func c11JoinedFragments(s, text string, offs *[]ansiOffset) bool {
	locs := c11RegexBytes.FindAllStringIndex(s, -1)
	legal := map[int32]bool{}
	joins := map[int]bool{} // byte offsets in the joined text where a sequence was removed
	sum, pos, prev := 0, 0, 0
	for _, loc := range locs {
		seg := s[prev:loc[0]]
		sum += utf8.RuneCountInString(seg)
		pos += len(seg)
		legal[int32(sum)] = true
		joins[pos] = true
		prev = loc[1]
	}
	sum += utf8.RuneCountInString(s[prev:])
	legal[int32(sum)] = true
	n := utf8.RuneCountInString(text)
	if sum <= n || !c11SpansOK(offs, sum) {
		return false
	}
	merged := false
	for i := 0; i < len(text); {
		c, w := utf8.DecodeRuneInString(text[i:])
		if w > 1 && c != utf8.RuneError {
			for k := i + 1; k < i+w; k++ {
				if joins[k] {
					merged = true
				}
			}
		}
		i += w
	}
	if !merged {
		return false
	}
	for _, o := range *offs {
		for _, b := range o.offset {
			if int(b) > n && !legal[b] {
				return false
			}
		}
	}
	return true
}

func TestVerif_C11_bytes(t *testing.T) {
	r := kit.Start("C11", "bytes")
	if r == nil {
		t.Skip()
	}
	defer r.Finish()
	if d := r.Replay(); d != nil {
		s, _ := d["input"].(string)
		if q, ok := d["input_quoted"].(string); ok {
			if u, err := strconv.Unquote(q); err == nil {
				s = u
			}
		}
		c11CheckBytes(r, s)
		return
	}
	n := r.Pick(5, 6)
	r.Param("alphabet", strconv.Quote(string(c11Alphabet)))
	r.Param("max_len", fmt.Sprint(n))
	idx := 0
	kit.ByteStrings(c11Alphabet, 0, n, func(b []byte) bool {
		idx++
		if !r.Mine(idx) {
			return true
		}
		if r.Expired() {
			return false
		}
		s := string(b)
		c11CheckBytes(r, s)
		if idx%200003 == 0 {
			st, en := nextAnsiEscapeSequence(s)
			txt, offs, _ := extractColor(s, nil, nil)
			r.Sample(map[string]any{"input": strconv.Quote(s), "first_sequence": []int{st, en}, "text": strconv.Quote(txt), "spans": c11Spans(offs)})
		}
		return true
	})
}

func TestVerif_C11_osc(t *testing.T) {
	r := kit.Start("C11", "osc-bytes")
	if r == nil {
		t.Skip()
	}
	defer r.Finish()
	if d := r.Replay(); d != nil {
		if q, ok := d["input_quoted"].(string); ok {
			if u, err := strconv.Unquote(q); err == nil {
				c11CheckBytes(r, u)
			}
		}
		return
	}
	n := r.Pick(6, 7)
	r.Param("prefix", strconv.Quote("\x1b]"))
	r.Param("alphabet", strconv.Quote(string(c11OscAlphabet)))
	r.Param("max_len_after_prefix", fmt.Sprint(n))
	idx := 0
	kit.ByteStrings(c11OscAlphabet, 0, n, func(b []byte) bool {
		idx++
		if !r.Mine(idx) {
			return true
		}
		if r.Expired() {
			return false
		}
		s := "\x1b]" + string(b)
		c11CheckBytes(r, s)
		if loc := c11RegexBytes.FindStringIndex(s); loc != nil && c11Alt(s[loc[0]:loc[1]]) == "osc" {
			r.Count("complete_osc_sequences")
			if loc[1] < len(s) {
				r.Count("complete_osc_followed_by_more")
				if idx%50 == 0 {
					txt, _, _ := extractColor(s, nil, nil)
					r.Sample(map[string]any{"input": strconv.Quote(s), "text": strconv.Quote(txt)})
				}
			}
		}
		return true
	})
}

// ---------------------------------------------------------------- grammar layer

type c11Kind int

const (
	c11Text c11Kind = iota
	c11SGR
	c11LinkOpen
	c11LinkClose
	c11Other // well-formed, no effect on colour: other CSI, other OSC, ESC c, ESC ( B, SI/SO, x BS
)

type c11Piece struct {
	kind   c11Kind
	raw    string
	text   string  // c11Text: the visible characters
	params [][]int // c11SGR: parameters, each a list of ':'-separated sub-parameters; -1 = empty
	uri    string  // c11LinkOpen
	lparam string  // c11LinkOpen
	name   string
}

func c11MkSGR(spec string) c11Piece {
	// spec is written like the sequence body: "1;38:5:33"; it is parsed HERE into structure and rendered back
	p := c11Piece{kind: c11SGR, name: "SGR " + spec}
	if spec != "" {
		for _, ps := range strings.Split(spec, ";") {
			var sub []int
			for _, ss := range strings.Split(ps, ":") {
				if ss == "" {
					sub = append(sub, -1)
				} else {
					v, err := strconv.Atoi(ss)
					if err != nil {
						panic("harness: " + spec)
					}
					sub = append(sub, v)
				}
			}
			p.params = append(p.params, sub)
		}
	}
	var ps []string
	for _, sub := range p.params {
		var ss []string
		for _, v := range sub {
			if v < 0 {
				ss = append(ss, "")
			} else {
				ss = append(ss, strconv.Itoa(v))
			}
		}
		ps = append(ps, strings.Join(ss, ":"))
	}
	p.raw = "\x1b[" + strings.Join(ps, ";") + "m"
	return p
}

// every parameter class of the design; the first c11CoreN entries form the reduced core used for 3-sequence lines in the quick tier
func c11Catalog() (all []c11Piece, core []c11Piece) {
	coreSGR := []string{"", "0", "1", "4", "22", "31", "39", "42", "49", "91", "38;5;196", "48;5;17", "38;2;1;2;3", "1;31", "38:5:33", "0;4;32"}
	moreSGR := []string{"2", "3", "5", "6", "7", "8", "9", "23", "24", "25", "26", "27", "28", "29",
		"30", "37", "40", "47", "90", "97", "100", "103", "107",
		"38;5;7", "38;5;0", "48;5;255", "48;2;9;8;7", "38;2;0;0;0", "38;2;255;255;255",
		"48:5:44", "38:2:1:2:3", "38:2::1:2:3", "48:2::4:5:6",
		"31;42;1", "38;5;200;48;5;100", "2;3;5;9", "23;25;27;29", "1;38:5:33", "38:5:33;1", "48:2::4:5:6;4", "38;2;1;2;3;4", "38;5;196;0", "0;38;5;1", "7;27", "1;2;22", "39;49", "48;2;1;2;3;38;5;9"}
	other := func(name, raw string) c11Piece { return c11Piece{kind: c11Other, raw: raw, name: name} }
	coreOther := []c11Piece{
		other("CSI K", "\x1b[K"),
		{kind: c11LinkOpen, raw: "\x1b]8;;http://u/\x07", uri: "http://u/", name: "OSC 8 open BEL"},
		{kind: c11LinkClose, raw: "\x1b]8;;\x1b\\", name: "OSC 8 close ST"},
		other("OSC 0 BEL", "\x1b]0;title\x07"),
		other("ESC c", "\x1bc"),
		other("ESC ( B", "\x1b(B"),
		other("SO", "\x0e"),
		other("x BS", "x\x08"),
	}
	moreOther := []c11Piece{
		other("CSI 0K", "\x1b[0K"), other("CSI 2J", "\x1b[2J"), other("CSI ?25l", "\x1b[?25l"), other("CSI 1;1H", "\x1b[1;1H"),
		{kind: c11LinkOpen, raw: "\x1b]8;id=1;file:///a b\x1b\\", uri: "file:///a b", lparam: "id=1", name: "OSC 8 open ST"},
		{kind: c11LinkClose, raw: "\x1b]8;;\x07", name: "OSC 8 close BEL"},
		other("OSC 2 ST", "\x1b]2;t\x1b\\"),
		other("ESC ) B", "\x1b)B"),
		other("SI", "\x0f"),
		other("é BS", "é\x08"),
	}
	for _, s := range coreSGR {
		core = append(core, c11MkSGR(s))
	}
	core = append(core, coreOther...)
	all = append(all, core...)
	for _, s := range moreSGR {
		all = append(all, c11MkSGR(s))
	}
	all = append(all, moreOther...)
	return
}

// text chunk of gap i (multi-byte first, so that byte and rune offsets differ from the first span on)
var c11Texts = []c11Piece{
	{kind: c11Text, raw: "éa", text: "éa"},
	{kind: c11Text, raw: " ", text: " "},
	{kind: c11Text, raw: "aé ", text: "aé "},
	{kind: c11Text, raw: "é", text: "é"},
}

// ---- the independent interpreter

type c11State struct {
	fg, bg int32
	attr   tui.Attr
	link   bool
	uri    string
	lparam string
}

var c11Default = c11State{fg: -1, bg: -1}

func c11RGB(r, g, b int) int32 { return int32(1<<24 | r<<16 | g<<8 | b) }

func (s *c11State) reset() { s.fg, s.bg, s.attr = -1, -1, 0 } // SGR 0 does not end a hyperlink

// Select Graphic Rendition on structured parameters (ECMA-48 / xterm): ';' separates parameters,
// ':' sub-parameters; 38/48 take their arguments either as following parameters (38;5;n  38;2;r;g;b)
// or as sub-parameters (38:5:n  38:2:r:g:b  38:2:<colourspace>:r:g:b). Attributes that fzf cannot
// represent (6 rapid blink, 8 conceal, 26, 28) are not part of the observation.
//
// dropColon = true is NOT the reference: it is the model of one specific defect (a parameter with ':'
// sub-parameters that is followed by a further ';' parameter is ignored as a whole), used only to give
// disagreements of exactly that shape their own class.
func (s *c11State) sgr(params [][]int, dropColon bool) {
	if len(params) == 0 {
		s.reset()
		return
	}
	for i := 0; i < len(params); i++ {
		p := params[i]
		code := p[0]
		if len(p) > 1 {
			if dropColon && i < len(params)-1 {
				continue
			}
			if code == 38 || code == 48 {
				col, ok := int32(0), false
				sub := p[1:]
				switch {
				case sub[0] == 5 && len(sub) == 2:
					col, ok = int32(sub[1]), true
				case sub[0] == 2 && len(sub) == 4:
					col, ok = c11RGB(sub[1], sub[2], sub[3]), true
				case sub[0] == 2 && len(sub) == 5:
					col, ok = c11RGB(sub[2], sub[3], sub[4]), true
				}
				if ok && code == 38 {
					s.fg = col
				} else if ok {
					s.bg = col
				}
			}
			continue
		}
		switch {
		case code == 0:
			s.reset()
		case code == 1:
			s.attr |= tui.Bold
		case code == 2:
			s.attr |= tui.Dim
		case code == 3:
			s.attr |= tui.Italic
		case code == 4:
			s.attr |= tui.Underline
		case code == 5:
			s.attr |= tui.Blink
		case code == 7:
			s.attr |= tui.Reverse
		case code == 9:
			s.attr |= tui.StrikeThrough
		case code == 22:
			s.attr &^= tui.Bold | tui.Dim
		case code == 23:
			s.attr &^= tui.Italic
		case code == 24:
			s.attr &^= tui.Underline
		case code == 25:
			s.attr &^= tui.Blink
		case code == 27:
			s.attr &^= tui.Reverse
		case code == 29:
			s.attr &^= tui.StrikeThrough
		case code >= 30 && code <= 37:
			s.fg = int32(code - 30)
		case code == 39:
			s.fg = -1
		case code >= 40 && code <= 47:
			s.bg = int32(code - 40)
		case code == 49:
			s.bg = -1
		case code >= 90 && code <= 97:
			s.fg = int32(code - 90 + 8)
		case code >= 100 && code <= 107:
			s.bg = int32(code - 100 + 8)
		case code == 38 || code == 48:
			col, ok := int32(0), false
			if i+2 < len(params) && len(params[i+1]) == 1 && params[i+1][0] == 5 {
				col, ok = int32(params[i+2][0]), true
				i += 2
			} else if i+4 < len(params) && len(params[i+1]) == 1 && params[i+1][0] == 2 {
				col, ok = c11RGB(params[i+2][0], params[i+3][0], params[i+4][0]), true
				i += 4
			}
			if ok && code == 38 {
				s.fg = col
			} else if ok {
				s.bg = col
			}
		}
	}
}

func (s *c11State) apply(p *c11Piece, dropColon bool) {
	switch p.kind {
	case c11SGR:
		s.sgr(p.params, dropColon)
	case c11LinkOpen:
		s.link, s.uri, s.lparam = true, p.uri, p.lparam
	case c11LinkClose:
		s.link, s.uri, s.lparam = false, "", ""
	}
}

func c11FromAnsi(a *ansiState) c11State {
	if a == nil {
		return c11Default
	}
	s := c11State{fg: int32(a.fg), bg: int32(a.bg), attr: a.attr}
	if a.url != nil {
		s.link, s.uri, s.lparam = true, a.url.uri, a.url.params
	}
	return s
}

func (s c11State) String() string {
	l := ""
	if s.link {
		l = fmt.Sprintf(" link(%q,%q)", s.lparam, s.uri)
	}
	return fmt.Sprintf("fg=%d bg=%d attr=%d%s", s.fg, s.bg, s.attr, l)
}

// ---- one line

type c11Eval struct {
	r      *kit.Run
	hist   []string // raw earlier lines
	quiet  bool
	wantCh []c11State
	gotCh  []c11State
	raw    []byte
	text   []byte
}

func c11Names(seq []*c11Piece) []string {
	var out []string
	for _, p := range seq {
		if p.kind == c11Text {
			out = append(out, "text "+strconv.Quote(p.text))
		} else {
			out = append(out, p.name)
		}
	}
	return out
}

// expected colour of every character of the line and the state it leaves behind
func c11Expect(seq []*c11Piece, start c11State, dropColon bool, chars []c11State) ([]c11State, c11State) {
	chars = chars[:0]
	ref := start
	for _, p := range seq {
		if p.kind == c11Text {
			for range p.text { // runes
				chars = append(chars, ref)
			}
		} else {
			ref.apply(p, dropColon)
		}
	}
	return chars, ref
}

func c11FirstDiff(got, want []c11State) int {
	for i := range got {
		if got[i] != want[i] {
			return i
		}
	}
	return -1
}

// Shape of one specific defect: the line ENDS with one or more sequences that leave the state as it is
// (CSI K, a repeated SGR, SO, ...); the characters of the last colour run - from the last change of state
// to the end of the text - come out with no colour at all, because extractColor closes the last span
// only when text follows the last sequence.
const c11LastRunClass = "grammar:colour:last-run-uncoloured-when-line-ends-with-state-preserving-sequence"

// A ':'-form parameter followed by a further ';' parameter (38:5:33;1) is ignored as a whole.
const c11ColonClass = "grammar:colour:colon-subparameters-followed-by-parameter-ignored"

func c11LastRunLost(seq []*c11Piece, start c11State, dropColon bool, got, want []c11State) bool {
	if len(seq) == 0 || seq[len(seq)-1].kind == c11Text {
		return false
	}
	ref := start
	lastText := -1
	for i, p := range seq {
		if p.kind == c11Text {
			lastText = i
		}
	}
	for i, p := range seq {
		before := ref
		ref.apply(p, dropColon)
		if i > lastText && ref != before {
			return false // a trailing sequence changes the state
		}
	}
	for j := range want {
		if want[j] != ref || got[j] != c11Default {
			return false
		}
	}
	return true
}

func c11HasColonThenParam(seq []*c11Piece) bool {
	for _, p := range seq {
		if p.kind == c11SGR {
			for i, sub := range p.params {
				if len(sub) > 1 && i < len(p.params)-1 {
					return true
				}
			}
		}
	}
	return false
}

// does the observation equal the prediction (characters, allowing the last-run shape, and state left behind)?
// returns the class of the disagreement: "" none, c11LastRunClass, or "other"
func c11Agrees(seq []*c11Piece, start c11State, dropColon bool, got, want []c11State, gotAfter, wantAfter c11State) (string, int) {
	i := c11FirstDiff(got, want)
	if i >= 0 {
		if c11LastRunLost(seq, start, dropColon, got[i:], want[i:]) && gotAfter == wantAfter {
			return c11LastRunClass, i
		}
		return "other", i
	}
	if gotAfter != wantAfter {
		return "other", -1
	}
	return "", -1
}

// evaluates the line made of seq from (state, ref); returns the carried-over pair and whether the chain can go on
func (ev *c11Eval) line(seq []*c11Piece, state *ansiState, ref c11State) (*ansiState, c11State, bool) {
	r := ev.r
	ev.raw, ev.text = ev.raw[:0], ev.text[:0]
	start := ref
	for _, p := range seq {
		ev.raw = append(ev.raw, p.raw...)
		if p.kind == c11Text {
			ev.text = append(ev.text, p.text...)
		}
	}
	ev.wantCh, ref = c11Expect(seq, start, false, ev.wantCh)
	raw, want := string(ev.raw), string(ev.text)
	det := func() map[string]any {
		return map[string]any{"line": raw, "line_quoted": strconv.Quote(raw), "pieces": c11Names(seq), "earlier_lines": append([]string(nil), ev.hist...), "state_before": start.String()}
	}
	var text string
	var offs *[]ansiOffset
	var newState *ansiState
	var before ansiState
	if state != nil {
		before = *state
	}
	panicked := false
	func() {
		defer func() {
			if e := recover(); e != nil {
				d := det()
				d["panic"] = fmt.Sprint(e)
				r.Violation("panic", d)
				panicked = true
			}
		}()
		text, offs, newState = extractColor(raw, state, nil)
	}()
	if panicked {
		return nil, c11Default, false
	}
	r.Eval()
	if state != nil && !before.equals(state) {
		r.Violation("carried-state-object-modified", det())
	}
	if text != want {
		d := det()
		d["got_text"], d["want_text"] = text, want
		cls := "grammar:text:keeps-part-of-a-sequence"
		if len(text) < len(want) {
			cls = "grammar:text:swallowed"
		}
		r.Violation(cls, d)
		return newState, ref, false
	}
	if !c11SpansOK(offs, len(ev.wantCh)) {
		d := det()
		d["spans"] = c11Spans(offs)
		r.Violation("grammar:spans-malformed", d)
		return newState, ref, false
	}
	ev.gotCh = ev.gotCh[:0]
	for range ev.wantCh {
		ev.gotCh = append(ev.gotCh, c11Default)
	}
	if offs != nil {
		for i := range *offs {
			o := &(*offs)[i]
			c := c11FromAnsi(&o.color)
			for k := o.offset[0]; k < o.offset[1]; k++ {
				ev.gotCh[k] = c
			}
		}
	}
	gotAfter := c11FromAnsi(newState)
	cls, at := c11Agrees(seq, start, false, ev.gotCh, ev.wantCh, gotAfter, ref)
	if cls != "" {
		d := det()
		d["text"], d["got_state_after"], d["want_state_after"] = text, gotAfter.String(), ref.String()
		if at >= 0 {
			d["character"], d["got"], d["want"] = at, ev.gotCh[at].String(), ev.wantCh[at].String()
		}
		goOn := cls == c11LastRunClass
		if cls == "other" {
			cls = "grammar:carried-state"
			if at >= 0 {
				cls = c11ColourClass(ev.gotCh[at], ev.wantCh[at])
			}
			if c11HasColonThenParam(seq) {
				// exactly the shape of the colon defect? then the observation equals the defect model's prediction
				var wantV []c11State
				wantV, refV := c11Expect(seq, start, true, nil)
				if c, _ := c11Agrees(seq, start, true, ev.gotCh, wantV, gotAfter, refV); c != "other" {
					cls, goOn, ref = c11ColonClass, true, refV // go on from the state fzf really is in
				}
			}
		}
		r.Violation(cls, d)
		if !goOn {
			return newState, ref, false
		}
	}
	if !ev.quiet {
		coloured := false
		for i := range ev.wantCh {
			if ev.wantCh[i] != c11Default {
				coloured = true
				break
			}
		}
		if coloured {
			r.NT()
		}
		if ref != c11Default {
			r.Count("lines_leaving_a_state_behind")
		}
		// the scanner agrees with the documented expression on this input class as well
		st, en := nextAnsiEscapeSequence(raw)
		ws, we := -1, -1
		if loc := c11Regex.FindStringIndex(raw); loc != nil {
			ws, we = loc[0], loc[1]
		}
		if st != ws || en != we {
			d := det()
			d["scanner"], d["regex"] = []int{st, en}, []int{ws, we}
			r.Violation("grammar:scanner!=regex", d)
		}
	}
	return newState, ref, true
}

func c11ColourClass(got, want c11State) string {
	switch {
	case got.fg != want.fg:
		return "grammar:colour:fg"
	case got.bg != want.bg:
		return "grammar:colour:bg"
	case got.link != want.link || got.uri != want.uri || got.lparam != want.lparam:
		return "grammar:colour:hyperlink"
	}
	return "grammar:colour:attributes"
}

// all lines with exactly n sequences drawn from cat, every placement of <= 3 text chunks in the n+1 gaps
func c11Lines(cat []c11Piece, n int, f func(seq []*c11Piece) bool) bool {
	pick := make([]int, n)
	seq := make([]*c11Piece, 0, 2*n+1)
	var rec func(k int) bool
	rec = func(k int) bool {
		if k == n {
			for mask := 0; mask < 1<<(n+1); mask++ {
				nt := 0
				for g := 0; g <= n; g++ {
					if mask>>g&1 == 1 {
						nt++
					}
				}
				if nt > 3 {
					continue
				}
				seq = seq[:0]
				for g := 0; g <= n; g++ {
					if mask>>g&1 == 1 {
						seq = append(seq, &c11Texts[g])
					}
					if g < n {
						seq = append(seq, &cat[pick[g]])
					}
				}
				if !f(seq) {
					return false
				}
			}
			return true
		}
		for i := range cat {
			pick[k] = i
			if !rec(k + 1) {
				return false
			}
		}
		return true
	}
	return rec(0)
}

type c11Hist struct {
	pieces []*c11Piece // one sequence per earlier line; the earlier line is  <sequence> "aé "
}

func (h c11Hist) names() []string {
	var out []string
	for _, p := range h.pieces {
		out = append(out, p.name)
	}
	return out
}

// runs the earlier lines (they are checked like any other line); ok=false if one of them disagreed
func (ev *c11Eval) runHist(h c11Hist) (*ansiState, c11State, bool) {
	var state *ansiState
	ref := c11Default
	ev.hist = ev.hist[:0]
	ev.quiet = true
	defer func() { ev.quiet = false }()
	for _, p := range h.pieces {
		var ok bool
		raw := p.raw + c11Texts[2].raw
		state, ref, ok = ev.line([]*c11Piece{p, &c11Texts[2]}, state, ref)
		ev.hist = append(ev.hist, raw)
		if !ok {
			return nil, c11Default, false
		}
	}
	return state, ref, true
}

func c11Find(cat []c11Piece, name string) *c11Piece {
	for i := range cat {
		if cat[i].name == name {
			return &cat[i]
		}
	}
	panic("harness: no piece " + name)
}

func TestVerif_C11_grammar(t *testing.T) {
	r := kit.Start("C11", "grammar")
	if r == nil {
		t.Skip()
	}
	defer r.Finish()
	all, core := c11Catalog()
	ev := &c11Eval{r: r}
	if d := r.Replay(); d != nil {
		c11ReplayGrammar(r, ev, all, d)
		return
	}
	r.Param("catalogue", fmt.Sprint(len(all)))
	r.Param("core_catalogue", fmt.Sprint(len(core)))
	// histories: none, every single earlier line, every pair of earlier lines
	var hists []c11Hist
	hists = append(hists, c11Hist{})
	for i := range all {
		hists = append(hists, c11Hist{[]*c11Piece{&all[i]}})
	}
	nShort := len(hists)
	for i := range all {
		for j := range all {
			hists = append(hists, c11Hist{[]*c11Piece{&all[i], &all[j]}})
		}
	}
	// representative carried-over states for the 3-sequence lines
	rep := []c11Hist{{},
		{[]*c11Piece{c11Find(all, "SGR 1;31")}},
		{[]*c11Piece{c11Find(all, "SGR 48;5;17"), c11Find(all, "SGR 38;2;1;2;3;4")}},
		{[]*c11Piece{c11Find(all, "OSC 8 open ST")}},
		{[]*c11Piece{c11Find(all, "SGR 42"), c11Find(all, "CSI 0K")}},
	}
	cat3 := core
	if r.Thorough() {
		cat3 = all
	}
	r.Param("histories", fmt.Sprint(len(hists)))
	r.Param("catalogue_for_3_sequence_lines", fmt.Sprint(len(cat3)))
	states := map[c11State]bool{}
	sampled := 0
	idx := 0
	// A: every history (0-2 earlier lines) x lines with <= 1 sequence; B: histories of <= 1 line x lines with 2 sequences
	for hi, h := range hists {
		idx++
		if !r.Mine(idx) {
			continue
		}
		if r.ExpiredNow() {
			return
		}
		st, ref, ok := ev.runHist(h)
		if !ok {
			continue
		}
		r.State()
		if !states[ref] {
			states[ref] = true
			r.Count("carried_over_states_distinct_within_shard")
		}
		maxN := 1
		if hi < nShort {
			maxN = 2
		}
		for n := 0; n <= maxN; n++ {
			c11Lines(all, n, func(seq []*c11Piece) bool {
				_, _, good := ev.line(seq, st, ref)
				r.Trans()
				if good && sampled < 2 && n == maxN && len(seq) == 2*n+1 && hi%7 == 3 && seq[1].kind == c11SGR && len(seq[1].params) > 1 {
					sampled++
					r.Sample(map[string]any{"earlier_lines": append([]string(nil), ev.hist...), "line": strconv.Quote(string(ev.raw)), "text": string(ev.text), "state_before": ref.String(), "colour_of_last_character": ev.wantCh[len(ev.wantCh)-1].String()})
				}
				return !r.Expired()
			})
		}
	}
	// C: representative carried-over states x lines with 3 sequences (first sequence = work unit)
	for _, h := range rep {
		for i := range cat3 {
			idx++
			if !r.Mine(idx) {
				continue
			}
			if r.ExpiredNow() {
				return
			}
			st, ref, ok := ev.runHist(h)
			if !ok {
				continue
			}
			first := cat3[i : i+1]
			c11Lines(cat3, 2, func(tail []*c11Piece) bool {
				// tail = [T0?] s2 [T1?] s3 [T2?]; prepend the first sequence with and without a leading text chunk
				for lead := 0; lead < 2; lead++ {
					seq := make([]*c11Piece, 0, 8)
					nt := 0
					if lead == 1 {
						seq = append(seq, &c11Texts[3])
						nt++
					}
					seq = append(seq, &first[0])
					for _, p := range tail {
						if p.kind == c11Text {
							nt++
						}
						seq = append(seq, p)
					}
					if nt > 3 {
						continue
					}
					ev.line(seq, st, ref)
					r.Trans()
				}
				return !r.Expired()
			})
		}
	}
}

func c11ReplayGrammar(r *kit.Run, ev *c11Eval, all []c11Piece, d map[string]any) {
	// re-execute: earlier lines and the line itself are given raw; pieces are given by name
	var seq []*c11Piece
	names, _ := d["pieces"].([]any)
	for _, n := range names {
		s, _ := n.(string)
		if strings.HasPrefix(s, "text ") {
			u, _ := strconv.Unquote(s[5:])
			for i := range c11Texts {
				if c11Texts[i].text == u {
					seq = append(seq, &c11Texts[i])
				}
			}
		} else {
			seq = append(seq, c11Find(all, s))
		}
	}
	var h c11Hist
	earlier, _ := d["earlier_lines"].([]any)
	for _, e := range earlier {
		s, _ := e.(string)
		for i := range all {
			if all[i].raw+c11Texts[2].raw == s {
				h.pieces = append(h.pieces, &all[i])
				break
			}
		}
	}
	st, ref, ok := ev.runHist(h)
	if !ok {
		return
	}
	ev.line(seq, st, ref)
}
