package fzf

// C05 (item level): the result of matching an item does not depend on what was matched on the same Item
// before. Items cache their --nth tokens (Item.transformed) keyed by the input revision; change-nth,
// exclude and --tail bump the minor revision, reload the major one. Every two-step history
// (pattern A with revision r0, then pattern B with revision r1) on ONE item must equal B on a fresh item.

import (
	"fmt"
	"testing"

	"github.com/junegunn/fzf/src/algo"
	"github.com/junegunn/fzf/src/util"
	kit "github.com/junegunn/fzf/src/verifkit"
)

type c05bPat struct {
	nth   string
	delim int
	query string
	rev   int // 0 = r0, 1 = minor bump, 2 = major bump
}

func TestVerif_C05_item_histories(t *testing.T) {
	r := kit.Start("C05", "item-histories")
	if r == nil {
		t.Skip()
	}
	defer r.Finish()
	algo.Init("default")
	sortCriteria = []criterion{byScore, byBegin, byEnd}
	colon := ":"
	delims := []Delimiter{{}, {str: &colon}}
	nths := []string{"", "1", "2", "-1", "2..", "..2"}
	queries := []string{"a", "b", "ab", "'a", "^a", "b$"}
	revs := []revision{{}, {}, {}}
	revs[1].bumpMinor()
	revs[2].bumpMajor()
	type built struct {
		p   *Pattern
		key string
	}
	mk := func(nth string, d int, q string, rev int) *Pattern {
		var ranges []Range
		if nth != "" {
			var err error
			ranges, err = splitNth(nth)
			if err != nil {
				panic(err)
			}
		}
		return BuildPattern(NewChunkCache(), make(map[string]*Pattern), true, algo.FuzzyMatchV2, true, CaseSmart, true, true, true, false, ranges, delims[d], revs[rev], []rune(q), nil)
	}
	var pats []built
	for d := range delims {
		for _, nth := range nths {
			for _, q := range queries {
				for rev := 0; rev < 3; rev++ {
					pats = append(pats, built{mk(nth, d, q, rev), fmt.Sprintf("nth=%q delim=%d query=%q rev=%d", nth, d, q, rev)})
				}
			}
		}
	}
	r.Param("patterns", fmt.Sprint(len(pats)))
	r.Sample(map[string]any{"line": "a:b a", "first": pats[4].key, "then": pats[40].key})
	show := func(res *Result, off []Offset, pos *[]int) string {
		if res == nil {
			return "no match"
		}
		return fmt.Sprintf("points=%v offsets=%v pos=%v", res.points, off, copyPosC05(pos))
	}
	slab := util.MakeSlab(slab16Size, slab32Size)
	li := 0
	kit.Strings([]rune{'a', 'b', ' ', ':', 'é'}, 1, r.Pick(4, 5), func(line []rune) bool {
		li++
		if !r.Mine(li) {
			return true
		}
		if r.ExpiredNow() {
			return false
		}
		s := string(line)
		r.State()
		// the result of every pattern on a fresh item
		fresh := make([]string, len(pats))
		for i, b := range pats {
			it := Item{text: util.ToChars([]byte(s))}
			res, off, pos := b.p.MatchItem(&it, true, slab)
			fresh[i] = show(res, off, pos)
		}
		step := 1
		for i := range pats {
			for j := (i + li) % step; j < len(pats); j += step {
				// only histories a session can produce: the revision never goes back
				if pats[j].p.revision == pats[i].p.revision && (pats[j].p.delimiter != pats[i].p.delimiter || fmt.Sprint(pats[j].p.nth) != fmt.Sprint(pats[i].p.nth)) {
					continue // nth / delimiter cannot change without a revision bump
				}
				if pats[i].p.revision != (revision{}) && pats[j].p.revision == (revision{}) {
					continue
				}
				if pats[i].p.delimiter != pats[j].p.delimiter {
					continue // the delimiter is fixed for a session
				}
				it := Item{text: util.ToChars([]byte(s))}
				pats[i].p.MatchItem(&it, true, slab)
				res, off, pos := pats[j].p.MatchItem(&it, true, slab)
				r.Eval()
				r.Trans()
				got := show(res, off, pos)
				if got != fresh[j] {
					r.Violation("item-history-changes-result", map[string]any{"line": s, "first": pats[i].key, "then": pats[j].key, "got": got, "fresh": fresh[j]})
				} else if res != nil {
					r.NT()
				}
			}
		}
		return true
	})
}

func copyPosC05(p *[]int) []int {
	if p == nil {
		return nil
	}
	return append([]int{}, (*p)...)
}
