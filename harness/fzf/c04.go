package fzf

// C04 - results are the matched lines, each once, in rank order.
//
// Items go through a real ChunkList (and ChunkList.Snapshot(tail)), the real Matcher.scan partitions,
// matches and sorts them, and the lazily merged list (Merger.Get) is probed in several access patterns.
// Reference: the set of matching items is decided by a four-line matcher written for the four queries
// of this check; their order is ONE global stable sort under a comparator that reads the four 16-bit
// rank keys one by one (most significant first) and then the ordinal - no unsafe, no uint64 packing.
// Of the keys themselves only what is documented is demanded: the score slot is 65535 - score, the
// length slot is the trimmed rune length, and criterion k of the --tiebreak list fills slot 3-k.

import (
	"fmt"
	"os"
	"sort"
	"strings"
	"sync/atomic"
	"testing"
	"time"
	"unicode"

	"github.com/junegunn/fzf/src/algo"
	"github.com/junegunn/fzf/src/util"
	kit "github.com/junegunn/fzf/src/verifkit"
)

// scores tie in all the ways the tiebreaks separate: equal score / different length, different
// begin / end, different whitespace chunk, path vs basename, pure duplicates (0 and 10).
var c04Pool = []string{"ab", "a b", "xab", "ab x", " ab", "a/b", "x/ab", "abab", "b", "aXb", "ab", "a  b y"}

// empty, plain, negation-only, two-term, two-term with the second match nested inside the first
var c04Queries = []string{"", "ab", "!x", "a b", "ab x"}

const (
	c04QEmpty = 0
	c04QPlain = 1
	c04QNeg   = 2
	c04QTwo   = 3
	c04QNest  = 4
)

var c04CritName = map[criterion]string{byLength: "length", byChunk: "chunk", byPathname: "pathname", byBegin: "begin", byEnd: "end"}

// every legal --tiebreak list: <= 3 distinct criteria, "index" only last (it adds nothing to the list)
func c04CritLists() ([][]criterion, []string) {
	base := []criterion{byLength, byChunk, byPathname, byBegin, byEnd}
	var out [][]criterion
	var names []string
	var rec func(cur []criterion)
	rec = func(cur []criterion) {
		l := append([]criterion{byScore}, cur...)
		out = append(out, l)
		var n []string
		for _, c := range cur {
			n = append(n, c04CritName[c])
		}
		n = append(n, "index")
		names = append(names, strings.Join(n, ","))
		if len(cur) == 3 {
			return
		}
	next:
		for _, c := range base {
			for _, d := range cur {
				if c == d {
					continue next
				}
			}
			rec(append(append([]criterion{}, cur...), c))
		}
	}
	rec(nil)
	// shortest lists first
	idx := make([]int, len(out))
	for i := range idx {
		idx[i] = i
	}
	sort.SliceStable(idx, func(a, b int) bool { return len(out[idx[a]]) < len(out[idx[b]]) })
	o2, n2 := make([][]criterion, len(out)), make([]string, len(out))
	for i, j := range idx {
		o2[i], n2[i] = out[j], names[j]
	}
	return o2, n2
}

// the way core.go derives the scan direction and "positions needed" from the criteria
func c04Derive(crit []criterion) (forward, withPos bool) {
	forward = true
	for idx := len(crit) - 1; idx > 0; idx-- {
		switch crit[idx] {
		case byChunk:
			withPos = true
		case byEnd:
			forward = false
		case byBegin:
			forward = true
		case byPathname:
			withPos = true
			forward = false
		}
	}
	return
}

// reference matcher for the four queries (smart case: the queries are lower case, so case is ignored)
func c04RefMatch(q int, line string) bool {
	l := strings.ToLower(line)
	switch q {
	case c04QEmpty:
		return true
	case c04QPlain:
		i := strings.IndexByte(l, 'a')
		return i >= 0 && strings.IndexByte(l[i+1:], 'b') >= 0
	case c04QNeg:
		return !strings.Contains(l, "x")
	case c04QNest:
		// on "aXb" the match of the second term ([1,2)) lies strictly inside the match of the first ([0,3))
		i := strings.IndexByte(l, 'a')
		return i >= 0 && strings.IndexByte(l[i+1:], 'b') >= 0 && strings.Contains(l, "x")
	default:
		return strings.Contains(l, "a") && strings.Contains(l, "b")
	}
}

type c04Key struct {
	match  bool
	points [4]uint16
}

type c04Ref struct {
	ord    int32
	points [4]uint16
}

type c04Env struct {
	r        *kit.Run
	crits    [][]criterion
	names    []string
	pats     [2][2][5]*Pattern
	tbl      [][5][]c04Key // [crit][query][pool index]
	matchers map[[3]int]*Matcher
	perms    [6][][]int
	ref      []c04Ref
	cur      atomic.Pointer[c04Case] // case being executed, for the watchdog
	progress atomic.Int64
}

// watchdog: a scan or a Get that does not return within stuckS seconds is reported with the case that
// was running (the worker then exits; the rest of its share is recorded as not explored)
func (e *c04Env) watchdog(stuckS int) {
	go func() {
		last, since := int64(-1), time.Now()
		for {
			time.Sleep(time.Second)
			p := e.progress.Load()
			if p != last {
				last, since = p, time.Now()
				continue
			}
			c := e.cur.Load()
			if c == nil || time.Since(since) < time.Duration(stuckS)*time.Second {
				continue
			}
			e.r.Violation("hang", e.detail(c, map[string]any{"stuck_for_s": stuckS}))
			e.r.Cap("worker stopped after a hang")
			e.r.Finish()
			os.Exit(0)
		}
	}()
}

func c04B(b bool) int {
	if b {
		return 1
	}
	return 0
}

func c04NewEnv(r *kit.Run) *c04Env {
	algo.Init("default")
	e := &c04Env{r: r, matchers: map[[3]int]*Matcher{}}
	e.crits, e.names = c04CritLists()
	report := r.Shard == 0 // the table is the same in every worker
	cache := NewChunkCache()
	for fw := 0; fw < 2; fw++ {
		for wp := 0; wp < 2; wp++ {
			pc := make(map[string]*Pattern)
			for q, qs := range c04Queries {
				// cacheable=false as in filter mode: the result cache is C08's subject, and sortCriteria
				// (fixed for a process in production) changes between configurations here
				e.pats[fw][wp][q] = BuildPattern(cache, pc, true, algo.FuzzyMatchV2, true, CaseSmart, true, fw == 1, wp == 1, false, nil, Delimiter{}, revision{}, []rune(qs), nil)
			}
		}
	}
	slab := util.MakeSlab(slab16Size, slab32Size)
	// value of one criterion for (direction, positions, query, line), measured with the list {score, c}
	single := map[[5]int]uint16{}
	for _, c := range []criterion{byLength, byChunk, byPathname, byBegin, byEnd} {
		sortCriteria = []criterion{byScore, c}
		for fw := 0; fw < 2; fw++ {
			for wp := 0; wp < 2; wp++ {
				for q := 1; q < 5; q++ {
					for pi, s := range c04Pool {
						it := Item{text: util.ToChars([]byte(s))}
						if res, _, _ := e.pats[fw][wp][q].MatchItem(&it, wp == 1, slab); res != nil {
							single[[5]int{int(c), fw, wp, q, pi}] = res.points[2]
						}
					}
				}
			}
		}
	}
	e.tbl = make([][5][]c04Key, len(e.crits))
	for ci, crit := range e.crits {
		sortCriteria = crit
		fwB, wpB := c04Derive(crit)
		fw, wp := c04B(fwB), c04B(wpB)
		for q := range c04Queries {
			keys := make([]c04Key, len(c04Pool))
			for pi, s := range c04Pool {
				want := c04RefMatch(q, s)
				if q == c04QEmpty {
					keys[pi] = c04Key{match: true}
					continue
				}
				it := Item{text: util.ToChars([]byte(s))}
				res, _, _ := e.pats[fw][wp][q].MatchItem(&it, wpB, slab)
				if (res != nil) != want {
					if report {
						r.Violation("match-set", map[string]any{"query": c04Queries[q], "line": s, "got_match": res != nil, "want_match": want})
					}
				}
				keys[pi].match = want
				if res == nil {
					continue
				}
				keys[pi].points = res.points
				if !report {
					continue
				}
				d := map[string]any{"tiebreak": e.names[ci], "query": c04Queries[q], "line": s, "points": fmt.Sprint(res.points), "forward": fwB, "with_pos": wpB}
				// documented: score slot = 65535 - score (positive terms only; an inverse term scores 0)
				if q != c04QNeg {
					score := 0
					for _, term := range strings.Fields(c04Queries[q]) {
						chars := util.ToChars([]byte(s))
						ar, _ := algo.FuzzyMatchV2(false, true, fwB, &chars, []rune(term), wpB, slab)
						score += ar.Score
					}
					if int(res.points[3]) != 65535-score {
						d["want_slot3"] = 65535 - score
						r.Violation("key:score-slot", d)
					}
				}
				// the matched span aggregated independently over the terms (min begin, min end, max end), and the
				// begin / end / chunk keys recomputed from it (the formulas are the implementation's; the aggregation is not)
				if q != c04QNeg {
					minB, minE, maxE, valid := 1<<30, 1<<30, 0, false
					for _, term := range strings.Fields(c04Queries[q]) {
						chars := util.ToChars([]byte(s))
						ar, _ := algo.FuzzyMatchV2(false, true, fwB, &chars, []rune(term), wpB, slab)
						if ar.Start >= 0 && ar.Start < ar.End {
							valid = true
							if ar.Start < minB {
								minB = ar.Start
							}
							if ar.End < minE {
								minE = ar.End
							}
							if ar.End > maxE {
								maxE = ar.End
							}
						}
					}
					if valid {
						rs := []rune(s)
						white := 0
						for i, ch := range rs {
							white = i
							if i == minB || !unicode.IsSpace(ch) {
								break
							}
						}
						trim := len([]rune(strings.TrimFunc(s, unicode.IsSpace)))
						for k := 1; k < len(crit); k++ {
							var want int
							switch crit[k] {
							case byBegin:
								want = minE - white
							case byEnd:
								want = 65535 - 65535*(maxE-white)/(trim+1)
							case byChunk:
								b, e2 := minB, maxE
								for ; b >= 1 && !unicode.IsSpace(rs[b-1]); b-- {
								}
								for ; e2 < len(rs) && !unicode.IsSpace(rs[e2]); e2++ {
								}
								want = e2 - b
							default:
								continue
							}
							if int(res.points[3-k]) != want {
								d["slot"], d["want"], d["criterion"], d["span(minBegin,minEnd,maxEnd)"] = 3-k, want, c04CritName[crit[k]], []int{minB, minE, maxE}
								r.Violation("key:span-aggregation:"+c04CritName[crit[k]], d)
							}
						}
					}
				}
				for k := 1; k < len(crit); k++ {
					got := res.points[3-k]
					if crit[k] == byLength {
						if want := len([]rune(strings.TrimFunc(s, unicode.IsSpace))); int(got) != want {
							d["slot"], d["want"] = 3-k, want
							r.Violation("key:length-slot", d)
						}
					}
					if want := single[[5]int{int(crit[k]), fw, wp, q, pi}]; got != want {
						d["slot"], d["want"], d["criterion"] = 3-k, want, c04CritName[crit[k]]
						r.Violation("key:slot-order", d)
					}
				}
			}
			e.tbl[ci][q] = keys
			if report && (q == c04QPlain || q == c04QTwo || q == c04QNest) {
				// vacuity: which comparator level separates the pool pairs under this list
				for a := range keys {
					for b := a + 1; b < len(keys); b++ {
						if !keys[a].match || !keys[b].match {
							continue
						}
						lvl := "pairs_separated_by_ordinal_only"
						for k := 3; k >= 0; k-- {
							if keys[a].points[k] != keys[b].points[k] {
								lvl = fmt.Sprintf("pairs_separated_at_slot%d", k)
								break
							}
						}
						r.Count(lvl)
					}
				}
			}
		}
	}
	for n := 0; n <= 5; n++ {
		kit.Permutations(n, func(p []int) bool {
			e.perms[n] = append(e.perms[n], append([]int(nil), p...))
			return true
		})
	}
	return e
}

func (e *c04Env) matcher(doSort, tac bool, parts int) *Matcher {
	k := [3]int{c04B(doSort), c04B(tac), parts}
	m := e.matchers[k]
	if m == nil {
		pb := func(r []rune) *Pattern { panic("patternBuilder is not used by scan") }
		m = NewMatcher(NewChunkCache(), pb, doSort, tac, util.NewEventBox(), revision{})
		m.partitions = parts
		m.slab = make([]*util.Slab, parts)
		e.matchers[k] = m
	}
	return m
}

type c04Case struct {
	layer string
	list  []int // pool indices by ordinal (short layers) ...
	size  int   // ... or the size of the structured list
	tail  int
	seq   []uint8 // pool index by ordinal
	snap  []*Chunk
	ci    int
	q     int
	sort  bool
	tac   bool
	parts int
}

func (e *c04Env) detail(c *c04Case, extra map[string]any) map[string]any {
	d := map[string]any{"layer": c.layer, "tail": c.tail, "tiebreak": e.names[c.ci], "query": c04Queries[c.q], "sort": c.sort, "tac": c.tac,
		"partitions": c.parts, "chunk_size": chunkSize, "chunks": len(c.snap)}
	if c.layer != "long" {
		lines := make([]string, len(c.list))
		for i, p := range c.list {
			lines[i] = c04Pool[p]
		}
		d["list"], d["lines"] = append([]int{}, c.list...), lines
	} else {
		d["size"] = c.size
	}
	for k, v := range extra {
		d[k] = v
	}
	return d
}

func c04Less(a, b *c04Ref, tac bool) bool {
	for k := 3; k >= 0; k-- {
		if a.points[k] != b.points[k] {
			return a.points[k] < b.points[k]
		}
	}
	if tac {
		return a.ord > b.ord
	}
	return a.ord < b.ord
}

func c04Scan(m *Matcher, snap []*Chunk, pat *Pattern) (mg *Merger, perr any) {
	defer func() {
		if x := recover(); x != nil {
			perr = x
		}
	}()
	mg, _ = m.scan(MatchRequest{chunks: snap, pattern: pat})
	return
}

// a Merger with untouched lazy state over the same per-partition lists
func c04Fresh(mg *Merger) *Merger {
	if mg.chunks != nil || !mg.sorted {
		return mg
	}
	return NewMerger(mg.pattern, mg.lists, mg.sorted, mg.tac, mg.revision, mg.minIndex)
}

// probe returns -1 when every probed index agrees with the reference
func (e *c04Env) probe(mg *Merger, order []int, stride, limit int, cmpPoints bool) (bad int, got int32, perr any) {
	defer func() {
		if x := recover(); x != nil {
			perr = x
		}
	}()
	bad = -1
	chk := func(i int) bool {
		res := mg.Get(i)
		if res.item.Index() != e.ref[i].ord || cmpPoints && res.points != e.ref[i].points {
			bad, got = i, res.item.Index()
			return false
		}
		return true
	}
	if order != nil {
		for _, i := range order {
			bad = i
			if !chk(i) {
				return
			}
		}
		bad = -1
		return
	}
	n := len(e.ref)
	if stride > 0 {
		for i, k := 0, 0; i < n && k < limit; i, k = i+stride, k+1 {
			bad = i
			if !chk(i) {
				return
			}
		}
	} else {
		for i, k := n-1, 0; i >= 0 && k < limit; i, k = i+stride, k+1 {
			bad = i
			if !chk(i) {
				return
			}
		}
	}
	bad = -1
	return
}

func (e *c04Env) check(c *c04Case) {
	r := e.r
	e.cur.Store(c)
	e.progress.Add(1)
	sortCriteria = e.crits[c.ci]
	fwB, wpB := c04Derive(e.crits[c.ci])
	pat := e.pats[c04B(fwB)][c04B(wpB)][c.q]
	m := e.matcher(c.sort, c.tac, c.parts)
	mg, perr := c04Scan(m, c.snap, pat)
	r.Eval()
	if perr != nil {
		r.Violation("panic:scan", e.detail(c, map[string]any{"panic": fmt.Sprint(perr)}))
		return
	}
	// reference
	keys := e.tbl[c.ci][c.q]
	ref := e.ref[:0]
	for _, ch := range c.snap {
		for i := 0; i < ch.count; i++ {
			ord := ch.items[i].Index()
			if k := &keys[c.seq[ord]]; k.match {
				ref = append(ref, c04Ref{ord, k.points})
			}
		}
	}
	sorted := c.sort && (c.q == c04QPlain || c.q == c04QTwo || c.q == c04QNest)
	mode := "unsorted"
	if c.q == c04QEmpty {
		mode = "empty-query"
	}
	if sorted {
		mode = "sorted"
		tac := c.tac
		if len(ref) <= 8 {
			for i := 1; i < len(ref); i++ { // stable insertion sort
				for j := i; j > 0 && c04Less(&ref[j], &ref[j-1], tac); j-- {
					ref[j], ref[j-1] = ref[j-1], ref[j]
				}
			}
		} else {
			sort.SliceStable(ref, func(i, j int) bool { return c04Less(&ref[i], &ref[j], tac) })
		}
	} else if c.tac {
		for i, j := 0, len(ref)-1; i < j; i, j = i+1, j-1 {
			ref[i], ref[j] = ref[j], ref[i]
		}
	}
	if c.tac {
		mode += ":tac"
	}
	e.ref = ref
	n := len(ref)
	if n >= 2 {
		for i := 1; i < n; i++ {
			if ref[i].ord < ref[i-1].ord {
				r.NT() // the expected order is not the input order
				break
			}
		}
	}
	if sorted && len(mg.lists) > 1 {
		r.Count("sorted_merges_of_2+_partitions")
	}
	if len(c.snap) > 1 && c.snap[0].count < chunkSize {
		r.Count("partial_first_chunk")
	}
	if mg.Length() != n {
		r.Violation("length:"+mode, e.detail(c, map[string]any{"got": mg.Length(), "want": n}))
		return
	}
	cmpPoints := c.q != c04QEmpty
	fail := func(class, pattern string, bad int, got int32, perr any) {
		x := map[string]any{"access": pattern, "index": bad}
		if perr != nil {
			x["panic"] = fmt.Sprint(perr)
			class = "panic:get:" + mode
		} else {
			x["got_ordinal"], x["want_ordinal"] = got, ref[bad].ord
		}
		if n <= 12 {
			w := make([]int32, n)
			for i := range ref {
				w[i] = ref[i].ord
			}
			x["want_order"] = w
		}
		r.Violation(class, e.detail(c, x))
	}
	// ascending over everything
	if bad, got, perr := e.probe(mg, nil, 1, n, cmpPoints); bad >= 0 {
		cl := "order:" + mode
		if perr == nil && mg.Get(bad).item.Index() == ref[bad].ord {
			cl = "rank-key-differs-from-single-match"
		}
		fail(cl, "ascending", bad, got, perr)
		return
	}
	if n == 0 {
		return
	}
	if n <= 5 {
		// every order of probing all indices, each on untouched lazy state
		for _, p := range e.perms[n] {
			if bad, got, perr := e.probe(c04Fresh(mg), p, 0, 0, cmpPoints); bad >= 0 {
				fail("access-pattern:"+mode, fmt.Sprint(p), bad, got, perr)
				return
			}
		}
		r.CountN("probe_orders", len(e.perms[n]))
		return
	}
	if bad, got, perr := e.probe(c04Fresh(mg), nil, -1, n, cmpPoints); bad >= 0 {
		fail("access-pattern:"+mode, "descending", bad, got, perr)
		return
	}
	if bad, got, perr := e.probe(c04Fresh(mg), nil, -37, 40, cmpPoints); bad >= 0 {
		fail("access-pattern:"+mode, "descending stride 37", bad, got, perr)
		return
	}
	f := c04Fresh(mg)
	if bad, got, perr := e.probe(f, []int{n - 1, 0, n / 2, 1, n - 2}, 0, 0, cmpPoints); bad >= 0 {
		fail("access-pattern:"+mode, "last, first, middle, second, last but one", bad, got, perr)
		return
	}
	if bad, got, perr := e.probe(f, nil, 1, n, cmpPoints); bad >= 0 {
		fail("access-pattern:"+mode, "last then first then ascending", bad, got, perr)
		return
	}
	order := make([]int, 0, 48)
	for k := 0; k < 48; k++ {
		order = append(order, (k*7919+n/3)%n)
	}
	if bad, got, perr := e.probe(c04Fresh(mg), order, 0, 0, cmpPoints); bad >= 0 {
		fail("access-pattern:"+mode, "scattered (k*7919+n/3)%n", bad, got, perr)
		return
	}
	r.CountN("probe_orders", 5)
}

// the list goes through a real ChunkList with an item builder shaped like core.go's
func c04Build(seq []uint8, tail int) []*Chunk {
	var ord int32
	cl := NewChunkList(NewChunkCache(), func(item *Item, data []byte) bool {
		item.text = util.ToChars(data)
		item.text.Index = ord
		ord++
		return true
	})
	for _, p := range seq {
		cl.Push([]byte(c04Pool[p]))
	}
	snap, _, _ := cl.Snapshot(tail)
	return snap
}

var c04Parts = []int{1, 2, 3, 32}

// partition counts that slice this snapshot differently (the real sliceChunks decides); a count that
// yields the same slicing as a smaller one already run is the same execution of scan
func (e *c04Env) distinctParts(snap []*Chunk, parts []int) []int {
	var out []int
	seen := map[string]bool{}
	for _, p := range parts {
		sig := ""
		for _, sl := range e.matcher(true, false, p).sliceChunks(snap) {
			sig += fmt.Sprint(len(sl), ",")
		}
		if !seen[sig] {
			seen[sig] = true
			out = append(out, p)
		}
	}
	return out
}

// all configurations of one snapshot.
// plan 0: the full product.
// plan 1: configurations whose order cannot depend on the tiebreak list (sort off, empty or
//         negation-only query) run with the 6 lists of length <= 1 only.
// plan 2: plan 1, and sorted configurations run with the 26 lists of <= 2 criteria.
func (e *c04Env) configs(c *c04Case, plan int, parts []int) {
	parts = e.distinctParts(c.snap, parts)
	for ci := range e.crits {
		c.ci = ci
		ncrit := len(e.crits[ci]) - 1
		if plan == 2 && ncrit > 2 {
			continue
		}
		for q := range c04Queries {
			c.q = q
			for _, doSort := range []bool{true, false} {
				if plan >= 1 && ncrit > 1 && !(doSort && (q == c04QPlain || q == c04QTwo || q == c04QNest)) {
					continue
				}
				c.sort = doSort
				for _, tac := range []bool{false, true} {
					c.tac = tac
					for _, p := range parts {
						c.parts = p
						e.check(c)
					}
				}
			}
		}
	}
}

// ---------------------------------------------------------------- layer: all short lists
// Runs in two binaries: the real constants (layer "short": a short list is one chunk) and chunkSize
// scaled to 2 (layer "short-scaled": lists <= 5 span up to 3 chunks, partial first chunks under --tail).
func TestVerif_C04_short(t *testing.T) {
	layer := os.Getenv("VERIF_LAYER")
	if layer == "" {
		layer = "short"
	}
	r := kit.Start("C04", layer)
	if r == nil {
		t.Skip()
	}
	defer r.Finish()
	e := c04NewEnv(r)
	e.watchdog(30)
	if d := r.Replay(); d != nil {
		c04Replay(e, d)
		return
	}
	scaled := chunkSize < 10
	maxLen := r.Pick(4, 5)
	r.Param("chunk_size", fmt.Sprint(chunkSize))
	r.Param("tiebreak_lists", fmt.Sprint(len(e.crits)))
	r.Param("max_list_len", fmt.Sprint(maxLen))
	idx := 0
	seq8 := make([]uint8, 0, 8)
	kit.Sequences(len(c04Pool), 0, maxLen, func(s []int) bool {
		idx++
		if !r.Mine(idx) {
			return true
		}
		if r.ExpiredNow() {
			return false
		}
		seq8 = seq8[:0]
		for _, p := range s {
			seq8 = append(seq8, uint8(p))
		}
		n := len(s)
		plan := 1 // quick
		if r.Thorough() {
			plan = 0
			if n == 5 {
				plan = 2
			}
		}
		for tail := 0; tail < n || tail == 0; tail++ {
			if tail > 0 {
				if !scaled && (tail != 2 || plan != 0) {
					continue // real constants, full plan only: one trimmed variant (a single partial chunk, ordinals from n-2)
				}
				if scaled && tail != n-1 && (plan != 0) {
					continue // scaled, reduced plans: the trimmed variant n-1 (always a partial first chunk)
				}
			}
			c := &c04Case{layer: layer, list: s, tail: tail, seq: seq8, snap: c04Build(seq8, tail)}
			e.configs(c, plan, c04Parts)
			r.State()
			if (idx == 3000 || idx == 9000) && (tail == n-1 || !scaled) {
				c.ci, c.q, c.sort, c.tac = 17, c04QPlain, true, true
				r.Sample(e.detail(c, nil))
			}
		}
		return true
	})
}

func c04LongSeq(size int) []uint8 {
	seq := make([]uint8, size)
	for i := range seq {
		seq[i] = uint8((i*7 + i/13) % len(c04Pool))
	}
	return seq
}

// ---------------------------------------------------------------- layer: structured long lists
func TestVerif_C04_long(t *testing.T) {
	r := kit.Start("C04", "long")
	if r == nil {
		t.Skip()
	}
	defer r.Finish()
	e := c04NewEnv(r)
	e.watchdog(30)
	if d := r.Replay(); d != nil {
		c04Replay(e, d)
		return
	}
	sizes := []int{0, 1, 99, 100, 101, 199, 200, 201, 250, 3201, 6400}
	tails := []int{0, 99, 150, 3000}
	if r.Thorough() {
		tails = []int{0, 1, 99, 100, 101, 150, 2999, 3000}
	}
	r.Param("sizes", fmt.Sprint(sizes))
	r.Param("tails", fmt.Sprint(tails))
	r.Param("tiebreak_lists", fmt.Sprint(len(e.crits)))
	idx := 0
	for _, size := range sizes {
		seq := c04LongSeq(size)
		for _, tail := range tails {
			if tail > 0 && tail >= size {
				continue // nothing to trim: same as tail 0
			}
			var snap []*Chunk
			for ci := range e.crits {
				idx++
				if !r.Mine(idx) {
					continue
				}
				if r.ExpiredNow() {
					return
				}
				if snap == nil {
					snap = c04Build(seq, tail)
					r.State()
				}
				c := &c04Case{layer: "long", size: size, tail: tail, seq: seq, snap: snap, ci: ci}
				parts := e.distinctParts(snap, c04Parts)
				for q := range c04Queries {
					c.q = q
					for _, doSort := range []bool{true, false} {
						c.sort = doSort
						for _, tac := range []bool{false, true} {
							c.tac = tac
							for _, p := range parts {
								c.parts = p
								e.check(c)
							}
						}
					}
				}
				if idx%1500 == 7 {
					c.q, c.sort, c.tac, c.parts = c04QTwo, true, true, 3
					r.Sample(e.detail(c, nil))
				}
			}
		}
	}
}

func c04Replay(e *c04Env, d map[string]any) {
	num := func(k string) int { f, _ := d[k].(float64); return int(f) }
	c := &c04Case{tail: num("tail"), parts: num("partitions")}
	c.layer, _ = d["layer"].(string)
	c.sort, _ = d["sort"].(bool)
	c.tac, _ = d["tac"].(bool)
	if cs := num("chunk_size"); cs != chunkSize {
		e.r.Note(fmt.Sprintf("replay recorded with chunkSize %d, this binary has %d", cs, chunkSize))
	}
	if l, ok := d["list"].([]any); ok {
		c.list = []int{}
		for _, v := range l {
			f, _ := v.(float64)
			c.list = append(c.list, int(f))
			c.seq = append(c.seq, uint8(f))
		}
	} else {
		c.size = num("size")
		c.seq = c04LongSeq(c.size)
	}
	tb, _ := d["tiebreak"].(string)
	qs, _ := d["query"].(string)
	for ci, n := range e.names {
		if n == tb {
			c.ci = ci
		}
	}
	for q, s := range c04Queries {
		if s == qs {
			c.q = q
		}
	}
	c.snap = c04Build(c.seq, c.tail)
	e.check(c)
}
