package fzf

// C16 - the --listen endpoint is robust and enforces its access rules.
//
// Requests are token sequences handed to the real handleHttpRequest through a scripted net.Conn (every
// chunking is deterministic: one Read per written chunk, then EOF / a fired read deadline / a reset),
// through a real net.Pipe and through the real accept loop of startHttpServer on a loopback socket.
// The reference (c16Ref) is a framing-independent reading of the byte stream:
//   request   = request-line CRLF *( header-line CRLF ) CRLF body
//   a POST is complete when the header section is closed, it carries a valid Content-Length N and N body
//   bytes have arrived; it is authorised when no key is configured or an x-api-key header carries the key.
// Lenient points of the reading (stated as assumptions in the evidence): header lines without a colon or
// with unknown names are ignorable; when several x-api-key headers disagree either verdict is allowed.

import (
	"errors"
	"fmt"
	"io"
	"net"
	"os"
	"regexp"
	"strconv"
	"strings"
	"syscall"
	"testing"
	"time"

	"github.com/junegunn/fzf/src/tui"
	kit "github.com/junegunn/fzf/src/verifkit"
)

const (
	c16Key    = "Ky"
	c16Secret = `{"c16state":"S3CR3T-STATE"}`
)

var c16Toks = []string{
	"GET / HTTP/1.1\r\n",                  // 0
	"GET /?limit=1&offset=1 HTTP/1.1\r\n", // 1
	"POST / HTTP/1.1\r\n",                 // 2
	"PUT / HTTP/1.1\r\n",                  // 3
	"Content-Length: 2\r\n",               // 4
	"content-length: 0\r\n",               // 5
	"Content-Length: 1048577\r\n",         // 6
	"Content-Length: x\r\n",               // 7
	"x-api-key: " + c16Key + "\r\n",       // 8  exact
	"X-API-KEY: " + c16Key + "\r\n",       // 9  exact, other header case
	"x-api-key: K\r\n",                    // 10 proper prefix of the key
	"x-api-key: " + c16Key + "z\r\n",      // 11 key plus a suffix
	"x-api-key: ky\r\n",                   // 12 other case
	"\r\n",                                // 13
	"up",                                  // 14
	"up\r\n",                              // 15
	"bogus-action",                        // 16
	"\n",                                  // 17
	"\xff",                                // 18
	"Content-Length: 0x2\r\n",             // 19 not a decimal number: refused (a lenient radix would read 2)
	"Content-Length: 02\r\n",              // 20 decimal 2 with a leading zero
}

// ---------------------------------------------------------------- scripted connection
type c16conn struct {
	chunks      [][]byte
	ci          int
	end         error
	deadline    time.Time
	deadlineSet bool
	earlyReads  int
	setAt       time.Time
	pastEnd     int // reads answered with the end condition: the server wanted more than was sent
}

func (c *c16conn) Read(p []byte) (int, error) {
	if !c.deadlineSet {
		c.earlyReads++
	}
	for c.ci < len(c.chunks) && len(c.chunks[c.ci]) == 0 {
		c.ci++
	}
	if c.ci >= len(c.chunks) {
		c.pastEnd++
		return 0, c.end
	}
	n := copy(p, c.chunks[c.ci])
	c.chunks[c.ci] = c.chunks[c.ci][n:]
	return n, nil
}
func (c *c16conn) Write(p []byte) (int, error)        { return len(p), nil }
func (c *c16conn) Close() error                       { return nil }
func (c *c16conn) LocalAddr() net.Addr                { return &net.TCPAddr{} }
func (c *c16conn) RemoteAddr() net.Addr               { return &net.TCPAddr{} }
func (c *c16conn) SetDeadline(t time.Time) error      { return c.SetReadDeadline(t) }
func (c *c16conn) SetWriteDeadline(t time.Time) error { return nil }
func (c *c16conn) SetReadDeadline(t time.Time) error {
	c.deadline, c.deadlineSet, c.setAt = t, true, time.Now()
	return nil
}

var c16Ends = []struct {
	name string
	err  error
}{{"eof", io.EOF}, {"read-deadline", os.ErrDeadlineExceeded}, {"reset", syscall.ECONNRESET}}

// ---------------------------------------------------------------- reference reading
const (
	c16Reject     = iota // malformed: must be refused
	c16Incomplete        // well-formed so far but unfinished
	c16Get               // complete GET
	c16Post              // complete POST, body in ref.body
)

var c16KindNames = []string{"reject", "incomplete", "get", "post"}

type c16ref struct {
	kind      int
	getLike   bool // the request line starts like a GET line
	strictGet bool // ... and is exactly a GET line of the documented form
	lineOK    bool // the request line is complete and acceptable
	params    getParams
	keyHdrs   int
	exactHdrs int
	body      string
}

func (f c16ref) anyExact() bool { return f.exactHdrs > 0 }
func (f c16ref) allExact() bool { return f.exactHdrs > 0 && f.exactHdrs == f.keyHdrs }

var c16GetLine = regexp.MustCompile(`^GET /(?:\?([a-z0-9=&]+))? HTTP/1\.1$`)

func c16RefParams(q string) getParams {
	p := getParams{limit: 100, offset: 0}
	for _, kv := range strings.Split(q, "&") {
		if strings.HasPrefix(kv, "limit=") {
			if v, err := strconv.Atoi(kv[6:]); err == nil {
				p.limit = v
			}
		}
		if strings.HasPrefix(kv, "offset=") {
			if v, err := strconv.Atoi(kv[7:]); err == nil {
				p.offset = v
			}
		}
	}
	return p
}

func c16Ref(s string) c16ref {
	f := c16ref{params: getParams{limit: 100}}
	i := strings.Index(s, "\r\n")
	line := s
	if i >= 0 {
		line = s[:i]
	}
	f.getLike = strings.HasPrefix(line, "GET /") // loose: whatever follows, this asks for state, not for actions
	if m := c16GetLine.FindStringSubmatch(line); m != nil && i >= 0 {
		f.strictGet = true
		f.params = c16RefParams(m[1])
	} else if line == "POST / HTTP/1.1" && i >= 0 {
		// a POST line
	} else if i >= 0 {
		f.kind = c16Reject
		return f
	} else {
		f.kind = c16Incomplete // no complete request line
		return f
	}
	f.lineOK = true
	s = s[i+2:]
	cl := 0
	closed := false
	badLength := false
	for {
		j := strings.Index(s, "\r\n")
		hl := s
		if j >= 0 {
			hl = s[:j]
		}
		if j == 0 {
			closed = true
			s = s[2:]
			break
		}
		if k := strings.Index(hl, ":"); k >= 0 {
			name, val := strings.ToLower(hl[:k]), strings.TrimSpace(hl[k+1:])
			switch name {
			case "x-api-key":
				f.keyHdrs++
				if val == c16Key {
					f.exactHdrs++
				}
			case "content-length":
				if j >= 0 {
					n, err := strconv.Atoi(val)
					if err != nil || n <= 0 || n > 1024*1024 {
						badLength = true // refused, but keep reading: key headers count wherever they stand
					}
					cl = n
				}
			}
		}
		if j < 0 {
			break
		}
		s = s[j+2:]
	}
	switch {
	case badLength:
		f.kind = c16Reject
	case !closed:
		f.kind = c16Incomplete
	case f.strictGet:
		f.kind = c16Get
	case cl == 0:
		f.kind = c16Reject // POST without a content length
	case len(s) < cl:
		f.kind = c16Incomplete
	default:
		f.kind = c16Post
		f.body = s[:cl]
	}
	return f
}

// what --bind builds for the same action list (bound to a non-printable key, as the server has no key)
func c16Bind(body string) ([]*action, error) {
	km := map[tui.Event][]*action{}
	if err := parseKeymap(km, "f1:"+body); err != nil {
		return nil, err
	}
	if len(km) != 1 {
		return nil, fmt.Errorf("bind produced %d keys", len(km))
	}
	return km[tui.F1.AsEvent()], nil
}

func c16ActsString(a []*action) string {
	var sb strings.Builder
	for i, x := range a {
		if i > 0 {
			sb.WriteByte(' ')
		}
		if x == nil {
			sb.WriteString("<nil>")
			continue
		}
		fmt.Fprintf(&sb, "%d(%q)", int(x.t), x.a)
	}
	return sb.String()
}

func c16TopLevelComma(body string) bool {
	// the --bind grammar splits key:action pairs at commas outside action arguments
	return strings.Contains(maskActionContents(":"+body), ",")
}

// ---------------------------------------------------------------- response parsing
var c16StatusLine = regexp.MustCompile(`^HTTP/1\.1 ([0-9]{3}) [A-Za-z][A-Za-z ]*$`)
var c16HeaderLine = regexp.MustCompile(`^[A-Za-z][A-Za-z-]*: [^\r\n]*$`)

func c16ParseResp(resp string) (status int, body string, why string) {
	k := strings.Index(resp, "\r\n\r\n")
	if k < 0 {
		return 0, "", "no end of header section"
	}
	head, body := resp[:k], resp[k+4:]
	lines := strings.Split(head, "\r\n")
	m := c16StatusLine.FindStringSubmatch(lines[0])
	if m == nil {
		return 0, body, "bad status line"
	}
	status, _ = strconv.Atoi(m[1])
	cl := -1
	for _, h := range lines[1:] {
		if !c16HeaderLine.MatchString(h) {
			return status, body, "bad header line"
		}
		if strings.HasPrefix(strings.ToLower(h), "content-length: ") {
			if cl >= 0 {
				return status, body, "duplicate content-length"
			}
			n, err := strconv.Atoi(h[16:])
			if err != nil || n < 0 {
				return status, body, "bad content-length"
			}
			cl = n
		}
	}
	if cl >= 0 && cl != len(body) {
		return status, body, fmt.Sprintf("content-length %d but body has %d bytes", cl, len(body))
	}
	if cl < 0 && len(body) != 0 {
		return status, body, "body without content-length"
	}
	return status, body, ""
}

// ---------------------------------------------------------------- one execution + judgement
type c16case struct {
	key    string   // configured key ("" = none)
	chunks []string // the request as written
	end    int      // index into c16Ends
	via    string   // conn | pipe | tcp
	gen    string   // when set, the request is described instead of stored: "large:<body size>"
}

func c16Large(n int, key string) string {
	body := "change-query(" + strings.Repeat("a", n-14) + ")"
	s := "POST / HTTP/1.1\r\n"
	if key != "" {
		s += "X-Api-Key: " + key + "\r\n"
	}
	return s + "Content-Length: " + strconv.Itoa(len(body)) + "\r\n\r\n" + body
}

func c16mk(key string, chunks []string, end int, via string) c16case {
	return c16case{key: key, chunks: chunks, end: end, via: via}
}

func (c c16case) detail() map[string]any {
	if c.gen != "" {
		return map[string]any{"key_configured": c.key, "generator": c.gen, "end": c16Ends[c.end].name, "via": c.via,
			"request": "POST with the configured key, Content-Length = size, body = change-query(aaa...a) of that size"}
	}
	q := make([]string, len(c.chunks))
	for i, s := range c.chunks {
		q[i] = strconv.Quote(s)
	}
	return map[string]any{"key_configured": c.key, "chunks_quoted": q, "end": c16Ends[c.end].name, "via": c.via}
}

type c16obs struct {
	resp     string
	acts     []*action
	calls    int
	params   getParams
	panicked string
	hang     bool
	conn     *c16conn
}

type c16env struct {
	r   *kit.Run
	ch  chan []*action
	obs *c16obs
	srv *httpServer
}

func c16NewEnv(r *kit.Run) *c16env {
	e := &c16env{r: r, ch: make(chan []*action, 4)}
	e.srv = &httpServer{actionChannel: e.ch, getHandler: func(p getParams) string {
		e.obs.calls++
		e.obs.params = p
		return c16Secret
	}}
	return e
}

func (e *c16env) drain() []*action {
	var got []*action
	n := 0
	for {
		select {
		case a := <-e.ch:
			n++
			if n == 1 {
				got = a
			} else {
				got = append(got, &action{t: actIgnore, a: "<<second delivery>>"})
			}
		default:
			return got
		}
	}
}

func (e *c16env) runConn(c c16case) *c16obs {
	o := &c16obs{}
	e.obs = o
	e.srv.apiKey = []byte(c.key)
	cn := &c16conn{end: c16Ends[c.end].err}
	for _, s := range c.chunks {
		cn.chunks = append(cn.chunks, []byte(s))
	}
	o.conn = cn
	func() {
		defer func() {
			if x := recover(); x != nil {
				o.panicked = fmt.Sprint(x)
			}
		}()
		o.resp = e.srv.handleHttpRequest(cn)
	}()
	o.acts = e.drain()
	return o
}

func (e *c16env) runPipe(c c16case) *c16obs {
	o := &c16obs{}
	e.obs = o
	e.srv.apiKey = []byte(c.key)
	c1, c2 := net.Pipe()
	done := make(chan struct{})
	go func() {
		defer close(done)
		defer func() {
			if x := recover(); x != nil {
				o.panicked = fmt.Sprint(x)
			}
		}()
		o.resp = e.srv.handleHttpRequest(c2)
	}()
	go func() {
		for _, s := range c.chunks {
			if _, err := c1.Write([]byte(s)); err != nil {
				break // the server stopped reading: that is its right
			}
		}
		c1.Close()
	}()
	select {
	case <-done:
	case <-time.After(8 * time.Second):
		o.hang = true
		c1.Close()
		<-done
	}
	c2.Close()
	o.acts = e.drain()
	return o
}

func c16Flat(c c16case) string { return strings.Join(c.chunks, "") }

// judge applies every oracle to one observation. It returns the reference verdict and whether an action
// list was delivered (for the caller's counters).
func (e *c16env) judge(c c16case, o *c16obs) (c16ref, bool) {
	r := e.r
	r.Eval()
	req := c16Flat(c)
	f := c16Ref(req)
	d := func(extra ...any) map[string]any {
		m := c.detail()
		m["reference"] = c16KindNames[f.kind]
		m["response_quoted"] = strconv.Quote(o.resp)
		m["delivered"] = c16ActsString(o.acts)
		for i := 0; i+1 < len(extra); i += 2 {
			m[fmt.Sprint(extra[i])] = extra[i+1]
		}
		return m
	}
	if f.lineOK {
		r.NT()
	}
	if o.hang {
		r.Violation("hang", d())
		return f, false
	}
	if o.panicked != "" {
		r.Violation("panic", d("panic", o.panicked))
		return f, false
	}
	if o.conn != nil && (o.conn.earlyReads > 0 || !o.conn.deadlineSet) {
		r.Violation("read-before-deadline-armed", d())
	} else if o.conn != nil {
		if dl := o.conn.deadline.Sub(o.conn.setAt); dl <= 0 || dl > 30*time.Second {
			r.Violation("read-deadline-not-bounded", d("deadline_s", dl.Seconds()))
		}
	}
	status, body, why := c16ParseResp(o.resp)
	if why != "" {
		r.Violation("malformed-response", d("why", why))
		return f, len(o.acts) > 0
	}
	delivered := len(o.acts) > 0
	revealed := o.calls > 0 || strings.Contains(o.resp, "S3CR3T")
	authorised := c.key == "" || f.anyExact()
	mustAuth := c.key == "" || f.allExact()
	r.Outcome(fmt.Sprintf("%s key=%v auth=%v -> %d delivered=%v state=%v", c16KindNames[f.kind], c.key != "", authorised, status, delivered, revealed))

	// --- access rules
	if c.key != "" && !f.anyExact() {
		if delivered {
			r.Violation("action-without-key", d())
		}
		if revealed {
			if len(c.chunks) > 1 && c16KeyCutBehindKey(c) {
				r.Violation("framing:longer-key-accepted:write-ends-behind-key", d())
			} else {
				r.Violation("state-without-key", d())
			}
		}
	}
	if f.getLike && delivered {
		r.Violation("get-delivers-action", d())
	}
	if delivered && f.kind != c16Post {
		if !f.getLike {
			r.Violation("action-from-"+c16KindNames[f.kind]+"-request", d())
		}
	}
	if revealed && !f.getLike {
		r.Violation("state-from-non-get", d())
	}
	if o.calls > 1 {
		r.Violation("state-handler-called-twice", d())
	}
	if revealed && f.strictGet && o.params != f.params {
		r.Violation("get-params", d("got", fmt.Sprint(o.params), "want", fmt.Sprint(f.params)))
	}
	// --- a complete POST
	if f.kind == c16Post {
		trimmed := strings.Trim(f.body, "\r\n")
		want, err := c16Bind(trimmed)
		valid := err == nil && len(want) > 0
		switch {
		case c16TopLevelComma(trimmed):
			// several key:action pairs in the --bind grammar; not an action list
			if delivered {
				r.Violation("action-from-invalid-body", d("body", strconv.Quote(f.body)))
			}
		case !valid && delivered:
			r.Violation("action-from-invalid-body", d("body", strconv.Quote(f.body), "bind_error", fmt.Sprint(err)))
		case c.key != "" && !f.anyExact():
			// refused above all for the missing key
		case valid && authorised && !delivered && mustAuth:
			cls := "valid-post-not-delivered"
			switch {
			case len(c.chunks) > 1 && len(c16CutsInsideLine(c)) > 0:
				cls = "framing:valid-post-refused:write-ends-inside-line"
			case len(f.body) > 65536 && !strings.Contains(f.body, "\r\n"):
				cls = "size:valid-post-refused:body-over-64KiB"
			}
			if c.gen != "" {
				r.Violation(cls, d("body_bytes", len(f.body)))
			} else {
				r.Violation(cls, d("body", strconv.Quote(f.body)))
			}
		case valid && delivered:
			if c16ActsString(want) != c16ActsString(o.acts) {
				r.Violation("delivered-actions-differ-from-bind", d("bind", c16ActsString(want)))
			} else {
				r.Count("delivered_equal_to_bind")
			}
		}
	}
	// --- the answer says what happened
	if (status == 200) != (delivered || revealed) {
		r.Violation("status-200-iff-effect", d("status", status))
	}
	if revealed && status == 200 && body != c16Secret+"\n" {
		r.Violation("state-body", d("body", strconv.Quote(body)))
	}
	if o.conn != nil && o.conn.pastEnd > 0 && (f.kind == c16Post || f.kind == c16Get || f.kind == c16Reject) {
		// not a violation: the answer is right, but a client that keeps the connection open waits for the read deadline
		r.Count("complete_request_answered_only_after_end_of_input:" + c16KindNames[f.kind])
	}
	if delivered {
		r.Count("delivered")
	}
	if revealed {
		r.Count("state_served")
	}
	return f, delivered
}

// Narrow classes for answers that depend on where the writes end (the reference does not look at framing).
// boundaries inside a header-section line: the positions where a non-final write ends in the middle of a line
func c16CutsInsideLine(c c16case) []int {
	req := c16Flat(c)
	hdrEnd := strings.Index(req, "\r\n\r\n")
	if hdrEnd < 0 {
		hdrEnd = len(req)
	}
	var cuts []int
	p := 0
	for _, ch := range c.chunks[:len(c.chunks)-1] {
		p += len(ch)
		if p > 0 && p < hdrEnd+4 && !strings.HasSuffix(req[:p], "\r\n") {
			cuts = append(cuts, p)
		}
	}
	return cuts
}

// a write ends exactly behind "x-api-key: <the key>" although the header goes on in the next write
func c16KeyCutBehindKey(c c16case) bool {
	req := c16Flat(c)
	for _, p := range c16CutsInsideLine(c) {
		head := req[:p]
		if k := strings.LastIndex(head, "\r\n"); k >= 0 {
			head = head[k+2:]
		}
		if k := strings.Index(head, ":"); k >= 0 && strings.ToLower(head[:k]) == "x-api-key" && strings.TrimSpace(head[k+1:]) == c16Key {
			return true
		}
	}
	return false
}

func c16Req(seq []int) string {
	var sb strings.Builder
	for _, t := range seq {
		sb.WriteString(c16Toks[t])
	}
	return sb.String()
}

func c16Unquote(d map[string]any) (c16case, bool) {
	c := c16case{}
	c.key, _ = d["key_configured"].(string)
	c.via, _ = d["via"].(string)
	en, _ := d["end"].(string)
	for i, e := range c16Ends {
		if e.name == en {
			c.end = i
		}
	}
	if g, ok := d["generator"].(string); ok && strings.HasPrefix(g, "large:") {
		n, _ := strconv.Atoi(g[6:])
		c.gen = g
		c.chunks = []string{c16Large(n, c.key)}
		return c, true
	}
	l, ok := d["chunks_quoted"].([]any)
	if !ok {
		return c, false
	}
	for _, x := range l {
		s, _ := x.(string)
		u, err := strconv.Unquote(s)
		if err != nil {
			return c, false
		}
		c.chunks = append(c.chunks, u)
	}
	return c, true
}

func c16Replay(r *kit.Run, d map[string]any) {
	c, ok := c16Unquote(d)
	if !ok {
		r.Note("replay file carries no request")
		return
	}
	e := c16NewEnv(r)
	switch c.via {
	case "pipe":
		e.judge(c, e.runPipe(c))
	case "tcp":
		c16TCP(r, true, &c)
	default:
		e.judge(c, e.runConn(c))
	}
}

// ---------------------------------------------------------------- layer: token sequences, one write
func TestVerif_C16_sequences(t *testing.T) {
	r := kit.Start("C16", "sequences")
	if r == nil {
		t.Skip()
	}
	defer r.Finish()
	if d := r.Replay(); d != nil {
		c16Replay(r, d)
		return
	}
	e := c16NewEnv(r)
	maxLen := r.Pick(4, 5)
	r.Param("tokens", fmt.Sprint(len(c16Toks)))
	r.Param("max_len", fmt.Sprint(maxLen))
	r.Sample(c16mk(c16Key, []string{c16Req([]int{2, 4, 10, 13, 14})}, 0, "conn").detail())
	r.Sample(c16mk(c16Key, []string{c16Req([]int{0, 9, 13})}, 1, "conn").detail())
	i := 0
	kit.Sequences(len(c16Toks), 1, maxLen, func(seq []int) bool {
		i++
		if !r.Mine(i) {
			return true
		}
		if r.Expired() {
			return false
		}
		req := c16Req(seq)
		for _, key := range []string{"", c16Key} {
			for en := range c16Ends {
				c := c16mk(key, []string{req}, en, "conn")
				e.judge(c, e.runConn(c))
			}
		}
		r.State()
		return true
	})
	if !r.Thorough() {
		// quick: the length-5 sequences that begin with a request line the server accepts (a POST with a key needs 5 tokens)
		kit.Sequences(len(c16Toks), 4, 4, func(rest []int) bool {
			for _, first := range []int{0, 2} {
				i++
				if !r.Mine(i) {
					continue
				}
				if r.Expired() {
					return false
				}
				req := c16Toks[first] + c16Req(rest)
				for _, key := range []string{"", c16Key} {
					for en := range c16Ends {
						c := c16mk(key, []string{req}, en, "conn")
						e.judge(c, e.runConn(c))
					}
				}
				r.State()
			}
			return true
		})
	}
}

// ---------------------------------------------------------------- layer: two writes at every split point
func TestVerif_C16_splits(t *testing.T) {
	r := kit.Start("C16", "splits")
	if r == nil {
		t.Skip()
	}
	defer r.Finish()
	if d := r.Replay(); d != nil {
		c16Replay(r, d)
		return
	}
	e := c16NewEnv(r)
	maxLen := r.Pick(3, 4)
	r.Param("max_len", fmt.Sprint(maxLen))
	req0 := c16Req([]int{2, 4, 8, 13, 14})
	r.Sample(c16mk(c16Key, []string{req0[:20], req0[20:]}, 0, "conn").detail())
	i := 0
	kit.Sequences(len(c16Toks), 1, maxLen, func(seq []int) bool {
		i++
		if !r.Mine(i) {
			return true
		}
		if r.Expired() {
			return false
		}
		req := c16Req(seq)
		for _, key := range []string{"", c16Key} {
			whole := c16mk(key, []string{req}, 0, "conn")
			ow := e.runConn(whole)
			for sp := 1; sp < len(req); sp++ {
				// the client goes away / falls silent after sp bytes
				for en := range c16Ends {
					c := c16mk(key, []string{req[:sp]}, en, "conn")
					e.judge(c, e.runConn(c))
					r.Trans()
				}
				for _, en := range []int{0, 1} {
					c := c16mk(key, []string{req[:sp], req[sp:]}, en, "conn")
					o := e.runConn(c)
					e.judge(c, o)
					r.Trans()
					if o.resp != ow.resp || c16ActsString(o.acts) != c16ActsString(ow.acts) {
						r.Count("answers_that_depend_on_framing")
					}
				}
			}
		}
		r.State()
		return true
	})
	// three writes on the complete, valid requests (every pair of split points)
	if r.Mine(0) {
		for _, seq := range [][]int{{2, 4, 8, 13, 14}, {2, 8, 4, 13, 15}, {0, 8, 13}, {1, 9, 13}, {2, 4, 13, 14}} {
			req := c16Req(seq)
			for _, key := range []string{"", c16Key} {
				for a := 1; a < len(req); a++ {
					for b := a + 1; b < len(req); b++ {
						c := c16mk(key, []string{req[:a], req[a:b], req[b:]}, 0, "conn")
						e.judge(c, e.runConn(c))
						r.Trans()
					}
				}
			}
		}
	}
}

// ---------------------------------------------------------------- layer: action-list bodies vs --bind
func c16Bodies(thorough bool) []string {
	specs := []string{"up", "down", "UP", "toggle-down", "accept", "abort", "put", "put(x)", "bogus-action", "",
		"change-query(a b)", "change-query:x+y", "change-prompt[>]", "execute(echo {})", "execute-silent:date", "reload(a,b)",
		"pos(3)", "unbind(f2)", "unbind()", "rebind(bogus-key)", "change-preview-window(right,40%|hidden)", "change-preview-window(bogus)",
		"change-multi", "change-multi(2)", "transform(echo up)", "search(a)", "print(x)", "become(true)", "toggle-bind(ctrl-a)",
		"up,down", "first", "top", "select-all", "preview(cat {})", "change-nth(1)", "exclude", "bell", "track", "a:b", "f2:up"}
	var out []string
	for _, a := range specs {
		out = append(out, a)
	}
	n := len(specs)
	if !thorough {
		n = 24
	}
	for _, a := range specs {
		for _, b := range specs[:n] {
			out = append(out, a+"+"+b)
		}
	}
	for _, a := range []string{"up", "change-query(x)", "reload(a,b)", "bogus-action"} {
		for _, pre := range []string{"", "\r\n", "\n", " "} {
			for _, suf := range []string{"\r\n", "\n", "\r\n\r\n", " ", "\r\nup", "\x00", "\xff"} {
				out = append(out, pre+a+suf)
			}
		}
	}
	return out
}

func TestVerif_C16_bodies(t *testing.T) {
	r := kit.Start("C16", "bodies")
	if r == nil {
		t.Skip()
	}
	defer r.Finish()
	if d := r.Replay(); d != nil {
		c16Replay(r, d)
		return
	}
	e := c16NewEnv(r)
	bodies := c16Bodies(r.Thorough())
	r.Param("bodies", fmt.Sprint(len(bodies)))
	mk := func(body string, key string, hdrKey string) string {
		s := "POST / HTTP/1.1\r\n"
		if hdrKey != "" {
			s += "X-Api-Key: " + hdrKey + "\r\n"
		}
		return s + "Content-Length: " + strconv.Itoa(len(body)) + "\r\n\r\n" + body
	}
	r.Sample(c16mk(c16Key, []string{mk("change-query(a b)+up", c16Key, c16Key)}, 0, "conn").detail())
	i := 0
	for _, body := range bodies {
		i++
		if !r.Mine(i) {
			continue
		}
		if r.ExpiredNow() {
			return
		}
		if len(body) == 0 {
			continue // Content-Length: 0 is the sequences layer's business
		}
		for _, key := range []string{"", c16Key} {
			for _, hk := range []string{"", c16Key, "K"} {
				req := mk(body, key, hk)
				c := c16mk(key, []string{req}, 1, "conn")
				e.judge(c, e.runConn(c))
				// headers and body in separate writes, as HTTP clients commonly send them
				k := strings.Index(req, "\r\n\r\n") + 4
				c = c16mk(key, []string{req[:k], req[k:]}, 1, "conn")
				e.judge(c, e.runConn(c))
				if hk == c16Key {
					// the body in two writes at every point, byte by byte, and followed by bytes that do not belong to it
					for sp := k + 1; sp < len(req); sp++ {
						c = c16mk(key, []string{req[:k], req[k:sp], req[sp:]}, 1, "conn")
						e.judge(c, e.runConn(c))
					}
					bytewise := []string{req[:k]}
					for sp := k; sp < len(req); sp++ {
						bytewise = append(bytewise, req[sp:sp+1])
					}
					c = c16mk(key, bytewise, 0, "conn")
					e.judge(c, e.runConn(c))
					for _, tail := range []string{"\r\n", "up", "\r\n\r\nPOST / HTTP/1.1\r\n", "\x00"} {
						c = c16mk(key, []string{req + tail}, 1, "conn")
						e.judge(c, e.runConn(c))
						c = c16mk(key, []string{req, tail}, 0, "conn")
						e.judge(c, e.runConn(c))
					}
				}
			}
		}
		r.State()
	}
	// body sizes around the limits: the action list is change-query(aaa...a)
	sizes := []int{4095, 4096, 4097, 65535, 65536, 65537, 1024*1024 - 1, 1024 * 1024}
	for si, n := range sizes {
		if !r.Mine(si) {
			continue
		}
		for _, key := range []string{"", c16Key} {
			c := c16case{key: key, chunks: []string{c16Large(n, key)}, end: 0, via: "conn", gen: fmt.Sprintf("large:%d", n)}
			e.judge(c, e.runConn(c))
			r.Count("large_bodies")
		}
	}
	// one byte over the limit is refused whatever follows
	if r.Mine(0) {
		req := "POST / HTTP/1.1\r\nContent-Length: 1048577\r\n\r\n" + strings.Repeat("u", 1048577)
		c := c16mk("", []string{req[:60], req[60:]}, 0, "conn")
		o := e.runConn(c)
		if st, _, _ := c16ParseResp(o.resp); st != 400 || len(o.acts) > 0 {
			r.Violation("oversized-not-refused", map[string]any{"status": st})
		}
		r.Eval()
	}
}

// ---------------------------------------------------------------- layer: real net.Pipe and the real accept loop
func c16TCP(r *kit.Run, replay bool, only *c16case) {
	type srvT struct {
		key  string
		addr string
		ch   chan []*action
		ln   net.Listener
	}
	calls := 0
	start := func(key string) *srvT {
		if key == "" {
			os.Unsetenv("FZF_API_KEY")
		} else {
			os.Setenv("FZF_API_KEY", key)
		}
		s := &srvT{key: key, ch: make(chan []*action, 4)}
		ln, port, err := startHttpServer(listenAddress{"127.0.0.1", 0}, s.ch, func(p getParams) string { calls++; return c16Secret })
		os.Unsetenv("FZF_API_KEY")
		if err != nil {
			r.Violation("local-listener-did-not-start", map[string]any{"key": key, "error": err.Error()})
			return nil
		}
		s.ln, s.addr = ln, fmt.Sprintf("127.0.0.1:%d", port)
		return s
	}
	send := func(s *srvT, req string, mode string, more ...string) (string, error) {
		cn, err := net.DialTimeout("tcp", s.addr, 5*time.Second)
		if err != nil {
			return "", err
		}
		defer cn.Close()
		cn.SetDeadline(time.Now().Add(15 * time.Second))
		if _, err := cn.Write([]byte(req)); err != nil {
			return "", nil
		}
		for _, m := range more {
			time.Sleep(40 * time.Millisecond) // a separate segment; if TCP coalesces anyway the case equals the one-write case
			if _, err := cn.Write([]byte(m)); err != nil {
				break
			}
		}
		switch mode {
		case "half-close":
			cn.(*net.TCPConn).CloseWrite()
		case "close":
			return "", nil
		}
		b, err := io.ReadAll(cn)
		if err != nil && !errors.Is(err, syscall.ECONNRESET) {
			return string(b), err
		}
		return string(b), nil
	}
	e := c16NewEnv(r)
	servers := map[string]*srvT{}
	for _, key := range []string{"", c16Key} {
		if s := start(key); s != nil {
			servers[key] = s
			defer s.ln.Close()
		}
	}
	one := func(c c16case) {
		s := servers[c.key]
		if s == nil {
			return
		}
		// on the wire "state served" is read off the response only (the accept loop may still be busy with an abandoned connection)
		resp, err := send(s, c.chunks[0], "half-close", c.chunks[1:]...)
		o := &c16obs{resp: resp}
		if err != nil {
			r.Violation("tcp-no-answer", map[string]any{"case": c.detail(), "error": err.Error(), "partial_quoted": strconv.Quote(resp)})
			return
		}
		for {
			select {
			case a := <-s.ch:
				if o.acts == nil {
					o.acts = a
				} else {
					o.acts = append(o.acts, &action{t: actIgnore, a: "<<second delivery>>"})
				}
				continue
			default:
			}
			break
		}
		// the reference for GET parameters is checked by the in-process layers only
		f := c16Ref(c16Flat(c))
		o.params = f.params
		e.obs = o
		e.judge(c, o)
	}
	if only != nil {
		one(*only)
		return
	}
	maxLen := r.Pick(2, 3)
	i := 0
	kit.Sequences(len(c16Toks), 1, maxLen, func(seq []int) bool {
		i++
		if !r.Mine(i) {
			return true
		}
		if r.ExpiredNow() {
			return false
		}
		for _, key := range []string{"", c16Key} {
			one(c16mk(key, []string{c16Req(seq)}, 0, "tcp"))
		}
		return true
	})
	// complete requests of length 5 (too long for the bound above)
	for k, seq := range [][]int{{2, 4, 8, 13, 14}, {2, 9, 4, 13, 15}, {2, 4, 10, 13, 14}, {2, 4, 8, 10, 13, 14}, {2, 4, 10, 8, 13, 14}, {1, 8, 13}, {0, 12, 13}} {
		if r.Mine(k) {
			for _, key := range []string{"", c16Key} {
				one(c16mk(key, []string{c16Req(seq)}, 0, "tcp"))
			}
		}
	}
	// two segments with a pause, on complete requests: a few write boundaries each
	for k, seq := range [][]int{{2, 4, 8, 13, 14}, {0, 8, 13}, {0, 11, 13}} {
		if r.Mine(k + 5) {
			req := c16Req(seq)
			for _, sp := range []int{4, 17, 20, len(req) - 8, len(req) - 6, len(req) - 2, len(req) - 1} {
				one(c16mk(c16Key, []string{req[:sp], req[sp:]}, 0, "tcp"))
			}
		}
	}
	// a client that goes away without reading must not disturb the next request
	if r.Mine(1) {
		for _, key := range []string{"", c16Key} {
			if s := servers[key]; s != nil {
				for n := 0; n < 20; n++ {
					send(s, c16Req([]int{0, 8, 13}), "close")
					send(s, "POST / HT", "close")
				}
				one(c16mk(key, []string{c16Req([]int{2, 4, 8, 13, 14})}, 0, "tcp"))
				r.Count("abandoned_connection_rounds")
			}
		}
	}
}

func TestVerif_C16_wire(t *testing.T) {
	r := kit.Start("C16", "wire")
	if r == nil {
		t.Skip()
	}
	defer r.Finish()
	if d := r.Replay(); d != nil {
		c16Replay(r, d)
		return
	}
	r.Sample(c16mk(c16Key, []string{c16Req([]int{2, 4, 8, 13, 14})}, 0, "tcp").detail())
	// (1) real net.Pipe: one write and full close; two writes at token boundaries
	e := c16NewEnv(r)
	i := 0
	kit.Sequences(len(c16Toks), 1, 3, func(seq []int) bool {
		i++
		if !r.Mine(i) {
			return true
		}
		if r.ExpiredNow() {
			return false
		}
		for _, key := range []string{"", c16Key} {
			c := c16mk(key, []string{c16Req(seq)}, 0, "pipe")
			e.judge(c, e.runPipe(c))
			if len(seq) > 1 && r.Thorough() {
				for k := 1; k < len(seq); k++ {
					c := c16mk(key, []string{c16Req(seq[:k]), c16Req(seq[k:])}, 0, "pipe")
					e.judge(c, e.runPipe(c))
				}
			}
		}
		return true
	})
	// (2) the accept loop on a loopback socket
	c16TCP(r, false, nil)

	// (3) who may listen where
	if r.Mine(2) {
		os.Unsetenv("FZF_API_KEY")
		type lc struct {
			spec     string
			nonLocal bool
		}
		for _, l := range []lc{{"0.0.0.0:0", true}, {"[::]:0", false}, {"192.0.2.1:0", true}, {"example.invalid:0", true}, {"127.0.0.2:0", false},
			{"localhost:0", false}, {"127.0.0.1:0", false}, {"0", false}, {":0", false}, {"LOCALHOST:0", false}, {"a:b:0", false}, {"0.0.0.0:65536", false}, {"0.0.0.0:x", false}} {
			addr, err := parseListenAddress(l.spec)
			r.Eval()
			if err != nil {
				r.Outcome("listen " + l.spec + " -> address refused")
				continue
			}
			ch := make(chan []*action, 1)
			ln, _, err := startHttpServer(addr, ch, func(getParams) string { return c16Secret })
			if ln != nil {
				ln.Close()
			}
			r.Outcome(fmt.Sprintf("listen %s without key -> started=%v", l.spec, err == nil))
			if l.nonLocal && err == nil {
				r.Violation("nonlocal-listener-without-key", map[string]any{"listen": l.spec, "host": addr.host})
			}
			if l.nonLocal && err != nil && !strings.Contains(err.Error(), "FZF_API_KEY") {
				r.Violation("nonlocal-refusal-does-not-name-the-key", map[string]any{"listen": l.spec, "error": err.Error()})
			}
		}
		// with a key a wildcard listener starts
		os.Setenv("FZF_API_KEY", c16Key)
		ln, _, err := startHttpServer(listenAddress{"0.0.0.0", 0}, make(chan []*action, 1), func(getParams) string { return c16Secret })
		os.Unsetenv("FZF_API_KEY")
		if err != nil {
			r.Note("wildcard listener with key did not start in this sandbox: " + err.Error())
		} else {
			ln.Close()
			r.Count("nonlocal_with_key_started")
		}
	}

	// (4) a full action channel: the answer is still one well-formed response (2 s channel timeout)
	if r.Mine(3) {
		ch := make(chan []*action) // nobody receives
		srv := &httpServer{actionChannel: ch, getHandler: func(getParams) string { return "" }}
		cn := &c16conn{end: io.EOF, chunks: [][]byte{[]byte(c16Req([]int{2, 4, 13, 14}))}}
		t0 := time.Now()
		resp := srv.handleHttpRequest(cn)
		st, _, why := c16ParseResp(resp)
		r.Eval()
		if why != "" || st != 503 {
			r.Violation("busy-answer", map[string]any{"response_quoted": strconv.Quote(resp), "why": why, "waited_s": time.Since(t0).Seconds()})
		}
		// and a state handler that times out (empty string) is a 503, not a 200
		cn = &c16conn{end: io.EOF, chunks: [][]byte{[]byte(c16Req([]int{0, 13}))}}
		resp = srv.handleHttpRequest(cn)
		st, _, why = c16ParseResp(resp)
		r.Eval()
		if why != "" || st != 503 {
			r.Violation("state-timeout-answer", map[string]any{"response_quoted": strconv.Quote(resp), "why": why})
		}
	}

	// (5) thorough: a client that never closes is cut off by the read deadline and the server goes on
	if r.Thorough() && r.Mine(4) {
		os.Unsetenv("FZF_API_KEY")
		ch := make(chan []*action, 4)
		ln, port, err := startHttpServer(listenAddress{"127.0.0.1", 0}, ch, func(getParams) string { return c16Secret })
		if err == nil {
			defer ln.Close()
			addr := fmt.Sprintf("127.0.0.1:%d", port)
			cn, err := net.Dial("tcp", addr)
			if err == nil {
				t0 := time.Now()
				cn.Write([]byte("POST / HTTP/1.1\r\nContent-Length: 2\r\n\r\nu"))
				cn.SetReadDeadline(time.Now().Add(25 * time.Second))
				b, rerr := io.ReadAll(cn)
				el := time.Since(t0)
				cn.Close()
				st, _, why := c16ParseResp(string(b))
				r.Eval()
				r.Param("silent_client_cut_after_s", fmt.Sprintf("%.1f", el.Seconds()))
				if rerr != nil || why != "" || st == 200 || el > 20*time.Second {
					r.Violation("silent-client-not-cut-off", map[string]any{"elapsed_s": el.Seconds(), "error": fmt.Sprint(rerr), "response_quoted": strconv.Quote(string(b))})
				}
				cn2, err := net.Dial("tcp", addr)
				if err == nil {
					cn2.Write([]byte(c16Req([]int{0, 13})))
					cn2.SetReadDeadline(time.Now().Add(5 * time.Second))
					b, _ := io.ReadAll(cn2)
					cn2.Close()
					if st, _, why := c16ParseResp(string(b)); st != 200 || why != "" {
						r.Violation("server-dead-after-silent-client", map[string]any{"response_quoted": strconv.Quote(string(b))})
					}
				}
			}
		}
	}
}
