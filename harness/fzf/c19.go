package fzf

// C19 - the built-in walker lists exactly the files the walker options describe.
//
// Every directory tree within the bounds is created on disk in the worker's private directory, walked by
// the real Reader.readFiles (fastwalk + fzf's callback) for every legal --walker value, skip list and root
// form, and the multiset of delivered paths is compared with a reference walker written on os.ReadDir /
// os.Lstat / os.Stat from the man page:
//   file   - list everything that is not (treated as) a directory
//   dir    - list directories, with a trailing separator
//   hidden - "include and follow hidden directories": without it a directory whose name starts with '.' is
//            neither listed nor entered; hidden FILES are listed regardless (documented behaviour)
//   follow - a symbolic link to a directory is a directory (listed as such, entered); without it it is a
//            plain entry. A link whose target is one of the directories on the way down to it (a loop) is
//            listed as a directory but not entered.
//   --walker-skip - prune directories by base name (no separator in the entry), by trailing path components
//            (separator inside), or, with a leading separator, by trailing components below at least one parent.
// Paths are the root as given joined with the relative path, without a leading "./"; a root other than "."
// is itself a directory entry (as with find).

import (
	"encoding/json"
	"fmt"
	"io/fs"
	"os"
	"path/filepath"
	"sort"
	"strings"
	"sync"
	"testing"

	"github.com/junegunn/fzf/src/util"
	kit "github.com/junegunn/fzf/src/verifkit"
)

const (
	c19File = iota
	c19Dir  // with kids, or empty
	c19LinkFile
	c19LinkDir
	c19Dangling
	c19Loop
)

var c19KindNames = []string{"file", "dir", "link-to-file", "link-to-dir", "dangling-link", "link-loop"}
var c19LeafKinds = []int{c19File, c19Dir, c19LinkFile, c19LinkDir, c19Dangling, c19Loop}
var c19Names = []string{"a", ".h", "b c", "n\nl"}

type c19Node struct {
	Name string    `json:"name"`
	Kind string    `json:"kind"`
	Kids []c19Node `json:"kids,omitempty"`
	kind int
}

// forests with exactly n nodes, depth <= depth, sibling names distinct; simplest first within a size
func c19Forests(n, depth int, f func([]c19Node)) {
	var cur []c19Node
	var rec func(ni, rem int)
	rec = func(ni, rem int) {
		if rem == 0 {
			f(append([]c19Node(nil), cur...))
			return
		}
		if ni == len(c19Names) {
			return
		}
		// name absent
		rec(ni+1, rem)
		// name present with a subtree of m nodes
		for m := 1; m <= rem; m++ {
			c19Subtrees(c19Names[ni], m, depth, func(nd c19Node) {
				cur = append(cur, nd)
				rec(ni+1, rem-m)
				cur = cur[:len(cur)-1]
			})
		}
	}
	rec(0, n)
}

func c19Subtrees(name string, m, depth int, f func(c19Node)) {
	if m == 1 {
		for _, k := range c19LeafKinds {
			f(c19Node{Name: name, Kind: c19KindNames[k], kind: k})
		}
		return
	}
	if depth <= 1 {
		return
	}
	c19Forests(m-1, depth-1, func(kids []c19Node) {
		f(c19Node{Name: name, Kind: c19KindNames[c19Dir], kind: c19Dir, Kids: kids})
	})
}

func c19FixKinds(nodes []c19Node) {
	for i := range nodes {
		for k, s := range c19KindNames {
			if s == nodes[i].Kind {
				nodes[i].kind = k
			}
		}
		c19FixKinds(nodes[i].Kids)
	}
}

func c19Must(err error) {
	if err != nil {
		panic("c19 harness: " + err.Error())
	}
}

// fixed surroundings of every tree: top/{tf, td/..., r2/...}; the tree itself is top/root
func c19Surroundings(top string) {
	c19Must(os.MkdirAll(top, 0o755))
	c19Must(os.WriteFile(filepath.Join(top, "tf"), nil, 0o644))
	for _, d := range []string{"td/.hd", "td/a", "r2/a"} {
		c19Must(os.MkdirAll(filepath.Join(top, d), 0o755))
	}
	for _, f := range []string{"td/.hid", "td/.hd/x", "td/a/y", "r2/a/y", "r2/z"} {
		c19Must(os.WriteFile(filepath.Join(top, f), nil, 0o644))
	}
}

func c19Build(dir string, nodes []c19Node, top string) int {
	n := 0
	for _, nd := range nodes {
		p := filepath.Join(dir, nd.Name)
		n++
		switch nd.kind {
		case c19File:
			c19Must(os.WriteFile(p, nil, 0o644))
		case c19Dir:
			c19Must(os.Mkdir(p, 0o755))
			n += c19Build(p, nd.Kids, top)
		case c19LinkFile:
			c19Must(os.Symlink(filepath.Join(top, "tf"), p))
		case c19LinkDir:
			c19Must(os.Symlink(filepath.Join(top, "td"), p))
		case c19Dangling:
			c19Must(os.Symlink(filepath.Join(top, "nope"), p))
		case c19Loop:
			c19Must(os.Symlink(".", p)) // the directory that contains the link
		}
	}
	return n
}

// ---------------------------------------------------------------- reference walker

type c19Ref struct {
	o     walkerOpts
	skips []string
	out   []string
	stats map[string]int
	sep   string
}

func (w *c19Ref) count(k string) { w.stats[k]++ }

func c19Components(p string) []string { return strings.Split(p, "/") }

func c19EndsWith(path, tail []string) bool {
	if len(tail) > len(path) {
		return false
	}
	off := len(path) - len(tail)
	for i := range tail {
		if path[off+i] != tail[i] {
			return false
		}
	}
	return true
}

func (w *c19Ref) pruned(printed string) bool {
	pc := c19Components(printed)
	for _, s := range w.skips {
		switch {
		case !strings.Contains(s, "/"):
			if pc[len(pc)-1] == s {
				return true
			}
		case strings.HasPrefix(s, "/"):
			tail := c19Components(s[1:])
			if len(pc) > len(tail) && c19EndsWith(pc, tail) {
				return true
			}
		default:
			if c19EndsWith(pc, c19Components(s)) {
				return true
			}
		}
	}
	return false
}

// what the reference knows about the file system: directory listings taken with os.ReadDir / os.Lstat /
// os.Stat, remembered per absolute path (a tree does not change while its configurations are walked;
// listings below the tree root are forgotten when the next tree is built)
type c19Ent struct {
	name   string
	isDir  bool
	self   fs.FileInfo // Lstat, directories only
	target fs.FileInfo // Stat, symbolic links whose target is a directory only
}

type c19Snap struct {
	treeRoot string
	tree     map[string][]c19Ent
	fixed    map[string][]c19Ent
	stat     map[string]fs.FileInfo
}

var c19FS = &c19Snap{tree: map[string][]c19Ent{}, fixed: map[string][]c19Ent{}, stat: map[string]fs.FileInfo{}}

func (s *c19Snap) forgetTree() { s.tree = map[string][]c19Ent{}; s.stat = map[string]fs.FileInfo{} }

func (s *c19Snap) statDir(abs string) fs.FileInfo {
	if st, ok := s.stat[abs]; ok {
		return st
	}
	st, err := os.Stat(abs)
	if err != nil {
		st = nil
	}
	s.stat[abs] = st
	return st
}

func (s *c19Snap) readDir(abs string) []c19Ent {
	m := s.fixed
	if abs == s.treeRoot || strings.HasPrefix(abs, s.treeRoot+"/") {
		m = s.tree
	}
	if l, ok := m[abs]; ok {
		return l
	}
	ents, err := os.ReadDir(abs)
	var out []c19Ent
	if err == nil {
		for _, e := range ents {
			full := filepath.Join(abs, e.Name())
			ce := c19Ent{name: e.Name(), isDir: e.IsDir()}
			if ce.isDir {
				ce.self, _ = os.Lstat(full)
			} else if e.Type()&fs.ModeSymlink != 0 {
				if st, err := os.Stat(full); err == nil && st.IsDir() {
					ce.target = st
				}
			}
			out = append(out, ce)
		}
	}
	m[abs] = out
	return out
}

// abs: directory to list; printed: the path as it is to be printed ("" for root ".");
// chain: the directories entered on the way down, for loop detection
func (w *c19Ref) walk(abs, printed string, chain []fs.FileInfo, depth int) {
	if depth > 12 {
		panic("c19 reference: runaway recursion")
	}
	for _, e := range c19FS.readDir(abs) {
		full := filepath.Join(abs, e.name)
		p := e.name
		if printed != "" {
			p = printed + "/" + e.name
		}
		asDir := e.isDir || w.o.follow && e.target != nil
		if !asDir {
			if w.o.file {
				w.out = append(w.out, p)
			}
			continue
		}
		if !w.o.hidden && strings.HasPrefix(e.name, ".") {
			w.count("hidden_dirs_pruned")
			continue
		}
		if w.pruned(p) {
			w.count("dirs_pruned_by_skip")
			continue
		}
		if w.o.dir {
			w.out = append(w.out, p+"/")
		}
		if !e.isDir {
			loop := false
			for _, a := range chain {
				if os.SameFile(a, e.target) {
					loop = true
				}
			}
			if loop {
				w.count("loops_not_entered")
				continue
			}
			w.count("links_followed")
			w.walk(full, p, append(chain, e.target), depth+1)
		} else if e.self != nil {
			w.walk(full, p, append(chain, e.self), depth+1)
		}
	}
}

func c19Reference(cwd string, roots []string, o walkerOpts, skips []string, stats map[string]int) []string {
	w := &c19Ref{o: o, skips: skips, stats: stats}
	for _, root := range roots {
		abs := filepath.Join(cwd, root)
		st := c19FS.statDir(abs)
		if st == nil {
			continue
		}
		printed := root
		if root == "." {
			printed = ""
		} else {
			// a named root is a directory entry itself
			if !o.hidden && strings.HasPrefix(filepath.Base(root), ".") {
				continue
			}
			if w.pruned(printed) {
				continue
			}
			if o.dir {
				w.out = append(w.out, printed+"/")
			}
		}
		w.walk(abs, printed, []fs.FileInfo{st}, 0)
	}
	return w.out
}

// ---------------------------------------------------------------- one comparison

type c19Config struct {
	walker string // --walker value
	skip   string // --walker-skip value ("" = none)
	roots  int    // 0: cwd = tree, roots ["."]; 1: cwd = parent, roots ["root", "r2"]
}

func c19Configs() []c19Config {
	var walkers []string
	for m := 1; m < 16; m++ {
		var parts []string
		for i, s := range []string{"file", "dir", "follow", "hidden"} {
			if m&(1<<i) != 0 {
				parts = append(parts, s)
			}
		}
		if m&3 != 0 {
			walkers = append(walkers, strings.Join(parts, ","))
		}
	}
	var out []c19Config
	for roots := 0; roots < 2; roots++ {
		for _, wk := range walkers {
			// "c,/b" holds near misses only: no directory is called c and no path ends in /b
			for _, sk := range []string{"", "a", "a/b c", "/b c", ".h", "c,/b"} {
				out = append(out, c19Config{wk, sk, roots})
			}
		}
	}
	return out
}

func c19Diff(a, b []string) []string {
	m := map[string]int{}
	for _, x := range b {
		m[x]++
	}
	var out []string
	for _, x := range a {
		if m[x] > 0 {
			m[x]--
		} else {
			out = append(out, x)
		}
	}
	return out
}

// what kind of path is it: has a hidden component, goes through / is a symlink, or plain
func c19Feature(item string) string {
	p := strings.TrimSuffix(item, "/")
	comps := c19Components(p)
	var f []string
	for _, c := range comps {
		if strings.HasPrefix(c, ".") {
			f = append(f, "hidden")
			break
		}
	}
	for i := range comps {
		if st, err := os.Lstat(strings.Join(comps[:i+1], "/")); err == nil && st.Mode()&fs.ModeSymlink != 0 {
			f = append(f, "symlink")
			break
		}
	}
	if len(f) == 0 {
		return "plain"
	}
	return strings.Join(f, "+")
}

func c19Kind(item string) string {
	if strings.HasSuffix(item, "/") {
		return "dir-entry"
	}
	return "file-entry"
}

func c19Walk(r *kit.Run, detail func() map[string]any, roots []string, o walkerOpts, skips []string) ([]string, bool) {
	var mu sync.Mutex
	var got []string
	ok := true
	r.Guard(detail, func() {
		rd := NewReader(func(b []byte) bool {
			mu.Lock()
			got = append(got, string(b))
			mu.Unlock()
			return true
		}, util.NewEventBox(), nil, false, false)
		ok = rd.readFiles(roots, o, skips)
	})
	r.Eval()
	sort.Strings(got)
	return got, ok
}

func c19Compare(r *kit.Run, top string, tree []c19Node, cf c19Config, stats map[string]int) bool {
	cwd, roots := filepath.Join(top, "root"), []string{"."}
	if cf.roots == 1 {
		cwd, roots = top, []string{"root", "r2"}
	}
	c19Must(os.Chdir(cwd))
	detail := func() map[string]any {
		return map[string]any{"tree": tree, "walker": cf.walker, "walker_skip": cf.skip, "roots": roots,
			"surroundings": "link-to-file -> ../tf; link-to-dir -> ../td {.hid, .hd/x, a/y}; link-loop -> .; second root r2 {a/y, z}"}
	}
	o, err := parseWalkerOpts(cf.walker)
	if err != nil {
		d := detail()
		d["error"] = err.Error()
		r.Violation("walker-option-rejected", d)
		return false
	}
	skips := filterNonEmpty(strings.Split(cf.skip, ","))
	got, ok := c19Walk(r, detail, roots, o, skips)
	want := c19Reference(cwd, roots, o, skips, stats)
	sort.Strings(want)
	if len(want) > 0 {
		r.NT()
	}
	good := true
	if !ok {
		d := detail()
		d["got"] = got
		r.Violation("walk:reported-failure", d)
		good = false
	}
	extra, missing := c19Diff(got, want), c19Diff(want, got)
	if len(extra)+len(missing) > 0 {
		good = false
		d := detail()
		d["got"], d["want"], d["extra"], d["missing"] = got, want, extra, missing
		cls := ""
		if len(extra) > 0 {
			x := extra[0]
			inWant := false
			for _, w := range want {
				if w == x {
					inWant = true
				}
			}
			switch {
			case strings.HasPrefix(x, "./"):
				cls = "format:leading-dot-slash"
			case inWant:
				cls = "duplicate:" + c19Kind(x) + ":" + c19Feature(x)
			default:
				cls = "extra:" + c19Kind(x) + ":" + c19Feature(x)
			}
		} else {
			cls = "missing:" + c19Kind(missing[0]) + ":" + c19Feature(missing[0])
		}
		if cf.skip != "" {
			// is the skip list what went wrong? it is when the same walk without a skip list agrees
			got0, _ := c19Walk(r, detail, roots, o, nil)
			want0 := c19Reference(cwd, roots, o, nil, map[string]int{})
			if len(c19Diff(got0, want0))+len(c19Diff(want0, got0)) == 0 {
				if len(extra) > 0 {
					cls = "skip:not-pruned:" + c19Kind(extra[0])
				} else {
					cls = "skip:over-pruned:" + c19Kind(missing[0])
				}
			}
		}
		r.Violation(cls, d)
	}
	return good
}

func c19Tree(r *kit.Run, top string, tree []c19Node, only *c19Config, stats map[string]int, twoRootsMax int) {
	root := filepath.Join(top, "root")
	c19Must(os.Chdir(top))
	c19Must(os.RemoveAll(root))
	c19Must(os.Mkdir(root, 0o755))
	nodes := c19Build(root, tree, top)
	c19FS.treeRoot = root
	c19FS.forgetTree()
	for _, cf := range c19Configs() {
		if only != nil && cf != *only {
			continue
		}
		if only == nil && cf.roots == 1 && nodes > twoRootsMax {
			continue
		}
		c19Compare(r, top, tree, cf, stats)
	}
	r.State()
}

func TestVerif_C19_walker(t *testing.T) {
	r := kit.Start("C19", "walker")
	if r == nil {
		t.Skip()
	}
	defer r.Finish()
	home, err := os.Getwd()
	c19Must(err)
	defer os.Chdir(home)
	top := filepath.Join(home, "c19top")
	c19Must(os.RemoveAll(top))
	c19Surroundings(top)
	defer func() {
		os.Chdir(home)
		os.RemoveAll(top)
	}()
	stats := map[string]int{}
	defer func() {
		for k, v := range stats {
			r.CountN(k, v)
		}
	}()
	if d := r.Replay(); d != nil {
		b, _ := json.Marshal(d["tree"])
		var tree []c19Node
		c19Must(json.Unmarshal(b, &tree))
		c19FixKinds(tree)
		cf := c19Config{walker: d["walker"].(string), skip: d["walker_skip"].(string)}
		if rs, _ := d["roots"].([]any); len(rs) == 2 {
			cf.roots = 1
		}
		c19Tree(r, top, tree, &cf, stats, 99)
		return
	}
	maxNodes := r.Pick(4, 5)
	r.Param("max_nodes", fmt.Sprint(maxNodes))
	r.Param("configurations_per_tree", fmt.Sprint(len(c19Configs())))
	i := 0
	stop := false
	for n := 0; n <= maxNodes && !stop; n++ {
		c19Forests(n, 3, func(tree []c19Node) {
			i++
			if stop || !r.Mine(i) {
				return
			}
			if r.ExpiredNow() {
				stop = true
				return
			}
			c19Tree(r, top, tree, nil, stats, maxNodes-1)
			if len(r.Samples) < 2 && n == maxNodes && i%977 == 0 {
				r.Sample(map[string]any{"tree": tree, "configurations": len(c19Configs())})
			}
		})
	}
	r.Param("trees", fmt.Sprint(i))
}

// ---------------------------------------------------------------- layer: root spellings
// The same directory named in different ways: the listing must be the listing of the canonical spelling with the
// printed prefix exchanged (only a leading "./" is dropped). The interesting spellings are not purely lexical: a
// root through a symlinked directory plus ".." ("link/../other" with link -> real/sub is real/other, not other).
func TestVerif_C19_root_spellings(t *testing.T) {
	r := kit.Start("C19", "root-spellings")
	if r == nil {
		t.Skip()
	}
	defer r.Finish()
	if r.Shard != 0 {
		return
	}
	top, err := os.MkdirTemp(".", "c19rs")
	c19Must(err)
	top, _ = filepath.Abs(top)
	defer os.RemoveAll(top)
	for _, d := range []string{"real/sub", "real/other/d", "real/other/.hd", "other/decoy", "real/other/a"} {
		c19Must(os.MkdirAll(filepath.Join(top, d), 0o755))
	}
	for _, f := range []string{"real/other/f", "real/other/d/g", "real/other/.hd/h", "other/decoy/x", "real/other/a/b c"} {
		c19Must(os.WriteFile(filepath.Join(top, f), nil, 0o644))
	}
	c19Must(os.Symlink("real/sub", filepath.Join(top, "link")))
	c19Must(os.Symlink("../d", filepath.Join(top, "real/other/ld")))
	c19Must(os.Chdir(top))
	canonical := "real/other"
	spellings := []string{"./real/other", "real/other/", "real//other", "real/./other", "real/sub/../other", "link/../other", "./link/../other", "other/../real/other"}
	r.Sample(map[string]any{"canonical": canonical, "spelling": "link/../other", "link": "link -> real/sub"})
	for _, walker := range []string{"file", "file,dir", "file,follow", "dir,follow,hidden", "file,dir,follow,hidden"} {
		o, err := parseWalkerOpts(walker)
		c19Must(err)
		for _, skip := range []string{"", "a", "real/other/a"} {
			skips := filterNonEmpty(strings.Split(skip, ","))
			detail := func() map[string]any { return map[string]any{"walker": walker, "walker_skip": skip} }
			base, _ := c19Walk(r, detail, []string{canonical}, o, skips)
			for _, sp := range spellings {
				got, _ := c19Walk(r, detail, []string{sp}, o, skips)
				printed := strings.TrimPrefix(sp, "./")
				printed = strings.TrimSuffix(printed, "/")
				var want []string
				for _, l := range base {
					want = append(want, printed+strings.TrimPrefix(l, canonical))
				}
				// a skip entry given as a path is matched against the path as printed: compare only where it cannot differ
				if strings.Contains(skip, "/") && printed != canonical {
					continue
				}
				sort.Strings(want)
				r.State()
				if len(want) > 0 {
					r.NT()
				}
				// what is demanded: every printed path names (through the file system, cwd = where fzf runs) the entry that the
				// canonical listing names at the same place, and is spelled below the root as given when that spelling is not
				// purely lexical; how "//", "/./" or a ".." that crosses no symlink are printed is not the property's business
				norm := func(ls []string) []string {
					out := make([]string, len(ls))
					for i, l := range ls {
						dirMark := ""
						if strings.HasSuffix(l, "/") {
							dirMark, l = "/", strings.TrimSuffix(l, "/")
						}
						// split without filepath.Dir / Base: they clean the path lexically, which is exactly what must not happen
						k := strings.LastIndex(l, "/")
						dir, leaf := ".", l
						if k >= 0 {
							dir, leaf = l[:k], l[k+1:]
						}
						parent, err := filepath.EvalSymlinks(dir)
						if err != nil {
							parent = "UNRESOLVABLE(" + dir + ")"
						}
						out[i] = parent + "/" + leaf + dirMark
					}
					sort.Strings(out)
					return out
				}
				got, want = norm(got), norm(base)
				if strings.Join(got, "\n") != strings.Join(want, "\n") {
					r.Violation("root-spelling-changes-listing", map[string]any{"walker": walker, "walker_skip": skip, "canonical_root": canonical, "root": sp, "got": got, "want": want})
				}
			}
		}
	}
}
