package fzf

// C08 layer (a) - query-edit histories against the caches.
//
// System under test: ONE ChunkCache + patternCache + ChunkList + a real Matcher whose Loop runs and is
// driven the way the coordinator in core.go drives it (Snapshot, Matcher.Reset, wait for EvtSearchFin),
// so the per-chunk result cache, its prefix/suffix search, the pattern cache, mergerCache and prevCount
// are all in play. A history is a sequence of user-visible events: type / delete one symbol at either end
// of the query, clear it, toggle-sort, exclude the top item, "more items arrive", "input ends".
// Oracle after EVERY step: the published list (same items, same order, same rank keys, same count, same
// final flag) equals what a fresh Pattern on a fresh cache gives over an independently built copy of the
// same input - the cached, incrementally narrowed path against the from-scratch path.

import (
	"fmt"
	"sort"
	"strings"
	"testing"
	"time"

	"github.com/junegunn/fzf/src/algo"
	"github.com/junegunn/fzf/src/util"
	kit "github.com/junegunn/fzf/src/verifkit"
)

var c08Pool = []string{"ab", "a b", "ba", "b", "aXb", "xab", "Ab", "a", "bb", "abab", "x", "a-b", "ab x", "B a"}
var c08Syms = []string{"a", "b", "A", " ", "'", "^", "$", "!", "|"}

// item counts: 2 full chunks + a partial one; then the third chunk exactly full; then a fourth, partial
var c08Levels = []int{2*chunkSize + chunkSize/2, 3 * chunkSize, 3*chunkSize + 7*chunkSize/10}

// chunk 0 is sparse (few matches per query: below queryCacheMax, so results are cached), chunk 1 is dense
// (broad queries exceed queryCacheMax and are NOT cached, narrow ones are), the rest in between
func c08Item(i int) string {
	k := 0
	switch {
	case i < chunkSize:
		if i%17 != 0 {
			return "zzz"
		}
		k = i / 17
	case i < 2*chunkSize:
		if i%2 != 0 {
			return "zz"
		}
		k = i / 2
	default:
		if i%5 != 0 {
			return "z"
		}
		k = i / 5
	}
	return c08Pool[k%len(c08Pool)]
}

type c08State struct {
	q     string
	sort  bool
	level int
	final bool
	excl  string // excluded ordinals, ascending, comma separated
}

func (s c08State) key() string {
	return fmt.Sprintf("%q sort=%v n=%d final=%v excl=[%s]", s.q, s.sort, c08Levels[s.level], s.final, s.excl)
}

func (s c08State) json() map[string]any {
	return map[string]any{"query": s.q, "sort": s.sort, "level": s.level, "items": c08Levels[s.level], "final": s.final, "excluded": s.excl}
}

func c08Deny(excl string) map[int32]struct{} {
	d := map[int32]struct{}{}
	for _, f := range strings.Split(excl, ",") {
		var v int32
		if _, err := fmt.Sscan(f, &v); err == nil {
			d[v] = struct{}{}
		}
	}
	return d
}

func c08AddExcl(excl string, ord int32) string {
	d := c08Deny(excl)
	d[ord] = struct{}{}
	var l []int
	for k := range d {
		l = append(l, int(k))
	}
	sort.Ints(l)
	var p []string
	for _, v := range l {
		p = append(p, fmt.Sprint(v))
	}
	return strings.Join(p, ",")
}

type c08RefRes struct {
	n    int
	hash uint64
	top  int32
}

type c08Worker struct {
	r       *kit.Run
	slabs   []*util.Slab
	refSnap [][]*Chunk
	memo    map[c08State]c08RefRes
}

func c08NewWorker(r *kit.Run) *c08Worker {
	algo.Init("default")
	sortCriteria = []criterion{byScore, byLength}
	w := &c08Worker{r: r, memo: map[c08State]c08RefRes{}}
	for i := 0; i < maxPartitions; i++ {
		w.slabs = append(w.slabs, util.MakeSlab(slab16Size, slab32Size))
	}
	for _, n := range c08Levels {
		cl := c08List()
		for i := 0; i < n; i++ {
			cl.Push([]byte(c08Item(i)))
		}
		snap, _, _ := cl.Snapshot(0)
		w.refSnap = append(w.refSnap, snap)
	}
	return w
}

func c08List() *ChunkList {
	var ord int32
	return NewChunkList(NewChunkCache(), func(item *Item, data []byte) bool {
		item.text = util.ToChars(data)
		item.text.Index = ord
		ord++
		return true
	})
}

func c08Hash(h uint64, ord int32, p [4]uint16) uint64 {
	for _, v := range [5]uint64{uint64(uint32(ord)), uint64(p[0]), uint64(p[1]), uint64(p[2]), uint64(p[3])} {
		h ^= v
		h *= 1099511628211
	}
	return h
}

// reference: fresh pattern, fresh caches, one partition, over the independently built input
func (w *c08Worker) refMerger(st c08State) *Merger {
	cache := NewChunkCache()
	p := BuildPattern(cache, map[string]*Pattern{}, true, algo.FuzzyMatchV2, true, CaseSmart, true, true, false, true, nil, Delimiter{}, revision{}, []rune(st.q), c08Deny(st.excl))
	m := NewMatcher(cache, nil, st.sort, false, util.NewEventBox(), revision{})
	m.partitions = 1
	m.slab = w.slabs[:1]
	mg, _ := m.scan(MatchRequest{chunks: w.refSnap[st.level], pattern: p})
	return mg
}

func (w *c08Worker) ref(st c08State) c08RefRes {
	st.final = false
	if v, ok := w.memo[st]; ok {
		return v
	}
	mg := w.refMerger(st)
	res := c08RefRes{n: mg.Length(), hash: 14695981039346656037, top: -1}
	for i := 0; i < res.n; i++ {
		x := mg.Get(i)
		if i == 0 {
			res.top = x.item.Index()
		}
		res.hash = c08Hash(res.hash, x.item.Index(), x.points)
	}
	w.memo[st] = res
	return res
}

// successors of a state, distinct, in a fixed order
func (w *c08Worker) children(st c08State, out []c08State) []c08State {
	out = out[:0]
	add := func(n c08State) {
		if n == st {
			return
		}
		for _, o := range out {
			if o == n {
				return
			}
		}
		out = append(out, n)
	}
	for _, s := range c08Syms {
		n := st
		n.q = st.q + s
		add(n)
		n.q = s + st.q
		add(n)
	}
	if len(st.q) > 0 {
		n := st
		n.q = st.q[:len(st.q)-1]
		add(n)
		n.q = st.q[1:]
		add(n)
		n.q = ""
		add(n)
	}
	n := st
	n.sort = !st.sort
	add(n)
	if !st.final {
		if st.level+1 < len(c08Levels) {
			n = st
			n.level++
			add(n)
		}
		n = st
		n.final = true
		add(n)
	}
	if top := w.ref(st).top; top >= 0 {
		n = st
		n.excl = c08AddExcl(st.excl, top)
		add(n)
	}
	return out
}

// ---------------------------------------------------------------- the coordinator stub (core.go, event loop)
type c08Sys struct {
	cache    *ChunkCache
	pc       map[string]*Pattern
	cl       *ChunkList
	m        *Matcher
	eb       *util.EventBox
	deny     map[int32]struct{}
	inputRev revision
	snapRev  revision
	snapshot []*Chunk
	reading  bool
	sort     bool
	query    []rune
	pushed   int
}

func (w *c08Worker) newSys() *c08Sys {
	s := &c08Sys{cache: NewChunkCache(), pc: map[string]*Pattern{}, eb: util.NewEventBox(), deny: map[int32]struct{}{}, reading: true, sort: true}
	var ord int32
	s.cl = NewChunkList(s.cache, func(item *Item, data []byte) bool {
		item.text = util.ToChars(data)
		item.text.Index = ord
		ord++
		return true
	})
	builder := func(runes []rune) *Pattern {
		denyCopy := make(map[int32]struct{})
		for k, v := range s.deny {
			denyCopy[k] = v
		}
		return BuildPattern(s.cache, s.pc, true, algo.FuzzyMatchV2, true, CaseSmart, true, true, false, true, nil, Delimiter{}, s.inputRev, runes, denyCopy)
	}
	s.m = NewMatcher(s.cache, builder, s.sort, false, s.eb, s.inputRev)
	copy(s.m.slab, w.slabs) // scratch memory reused across histories (allocation cost only)
	go s.m.Loop()
	return s
}

func (s *c08Sys) push(upto int) {
	for ; s.pushed < upto; s.pushed++ {
		s.cl.Push([]byte(c08Item(s.pushed)))
	}
}

// EvtReadNew / EvtReadFin
func (s *c08Sys) read(fin bool) {
	if fin {
		s.reading = false
	}
	s.snapshot, _, _ = s.cl.Snapshot(0)
	s.snapRev = s.inputRev
	s.m.Reset(s.snapshot, s.query, false, !s.reading, s.sort, s.snapRev)
}

// EvtSearchNew with changed=true (query edit, toggle-sort, exclude)
func (s *c08Sys) search(exclude []int32) {
	if len(exclude) > 0 {
		for _, o := range exclude {
			s.deny[o] = struct{}{}
		}
		s.pc = make(map[string]*Pattern)
		s.cache.Clear()
		s.inputRev.bumpMinor()
	}
	s.snapshot, _, _ = s.cl.Snapshot(0)
	s.snapRev = s.inputRev
	s.m.Reset(s.snapshot, s.query, true, !s.reading, s.sort, s.snapRev)
}

func (s *c08Sys) await() *Merger {
	var mg *Merger
	timeout := false
	t := time.AfterFunc(30*time.Second, func() { s.eb.Set(EvtQuit, nil) })
	for mg == nil && !timeout {
		s.eb.Wait(func(ev *util.Events) {
			if v, ok := (*ev)[EvtSearchFin]; ok {
				mg, _ = v.(*Merger)
			}
			if _, ok := (*ev)[EvtQuit]; ok {
				timeout = true
			}
			ev.Clear()
		})
	}
	t.Stop()
	return mg
}

// apply the event that leads from a to b; returns its kind
func (s *c08Sys) apply(a, b c08State) string {
	switch {
	case a.q != b.q:
		s.query = []rune(b.q)
		s.search(nil)
		return "edit"
	case a.sort != b.sort:
		s.sort = b.sort
		s.search(nil)
		return "toggle-sort"
	case a.excl != b.excl:
		da, db := c08Deny(a.excl), c08Deny(b.excl)
		var add []int32
		for k := range db {
			if _, ok := da[k]; !ok {
				add = append(add, k)
			}
		}
		s.search(add)
		return "exclude"
	case a.level != b.level:
		s.push(c08Levels[b.level])
		s.read(false)
		return "more-items"
	case a.final != b.final:
		s.read(true)
		return "input-ends"
	}
	return "none"
}

func c08HistJSON(h []c08State) []any {
	var out []any
	for _, s := range h {
		out = append(out, s.json())
	}
	return out
}

func c08List12(mg *Merger) []string {
	var out []string
	for i := 0; i < mg.Length() && i < 12; i++ {
		x := mg.Get(i)
		out = append(out, fmt.Sprintf("%d:%s", x.item.Index(), x.item.text.ToString()))
	}
	return out
}

// exec runs one history from a fresh system and checks the published list after every step
func (w *c08Worker) exec(hist []c08State) (ok bool) {
	r := w.r
	ok = true
	s := w.newSys()
	defer s.m.Stop()
	defer func() {
		if x := recover(); x != nil {
			ok = false
			r.Violation("panic", map[string]any{"history": c08HistJSON(hist), "panic": fmt.Sprint(x)})
		}
	}()
	seen := map[*Merger]bool{}
	for i, st := range hist {
		kind := "start"
		if i == 0 {
			s.push(c08Levels[st.level])
			s.query, s.sort = []rune(st.q), st.sort
			s.read(st.final)
		} else {
			kind = s.apply(hist[i-1], st)
		}
		mg := s.await()
		r.Eval()
		if mg == nil {
			r.Violation("no-result-published:after-"+kind, map[string]any{"history": c08HistJSON(hist[:i+1])})
			return false
		}
		if seen[mg] {
			r.Count("steps_served_from_merger_cache")
		}
		seen[mg] = true
		want := w.ref(st)
		h := uint64(14695981039346656037)
		n := mg.Length()
		for j := 0; j < n; j++ {
			x := mg.Get(j)
			h = c08Hash(h, x.item.Index(), x.points)
		}
		if len(s.cache.cache) > 0 {
			r.Count("steps_with_populated_chunk_cache")
		}
		if n != want.n || h != want.hash {
			fm := w.refMerger(st)
			cls := "list-differs"
			if n != want.n {
				cls = "count-differs"
			}
			r.Violation(cls+":after-"+kind, map[string]any{"history": c08HistJSON(hist[:i+1]), "step": i, "event": kind,
				"got_count": n, "want_count": want.n, "got_first12": c08List12(mg), "want_first12": c08List12(fm)})
			return false
		}
		if mg.final != st.final {
			r.Violation("final-flag:after-"+kind, map[string]any{"history": c08HistJSON(hist[:i+1]), "step": i, "got_final": mg.final, "want_final": st.final})
			return false
		}
		if n > 0 && i == len(hist)-1 {
			r.NT()
		}
	}
	return true
}

func TestVerif_C08_histories(t *testing.T) {
	r := kit.Start("C08", "cache-histories")
	if r == nil {
		t.Skip()
	}
	defer r.Finish()
	w := c08NewWorker(r)
	if d := r.Replay(); d != nil {
		var hist []c08State
		if l, ok := d["history"].([]any); ok {
			for _, v := range l {
				m, _ := v.(map[string]any)
				st := c08State{}
				st.q, _ = m["query"].(string)
				st.sort, _ = m["sort"].(bool)
				st.final, _ = m["final"].(bool)
				st.excl, _ = m["excluded"].(string)
				f, _ := m["level"].(float64)
				st.level = int(f)
				hist = append(hist, st)
			}
		}
		if len(hist) > 0 {
			w.exec(hist)
		}
		return
	}
	depth := r.Pick(4, 5)
	r.Param("depth", fmt.Sprint(depth))
	r.Param("item_counts", fmt.Sprint(c08Levels))
	r.Param("symbols", strings.Join(c08Syms, ""))
	r.Param("queryCacheMax", fmt.Sprint(queryCacheMax))
	count := r.Shard == 0 // the history tree is the same in every worker: shard 0 reports its size
	states := map[c08State]bool{}
	edges := map[[2]c08State]bool{}
	leaf := 0
	expired := false
	bufs := make([][]c08State, depth+1)
	var rec func(hist []c08State)
	rec = func(hist []c08State) {
		if expired {
			return
		}
		d := len(hist) - 1
		last := hist[d]
		if count {
			if !states[last] {
				states[last] = true
				r.State()
			}
			if d > 0 {
				e := [2]c08State{hist[d-1], last}
				if !edges[e] {
					edges[e] = true
					r.Trans()
				}
			}
		}
		if d == depth {
			leaf++
			if !r.Mine(leaf) {
				return
			}
			if r.ExpiredNow() {
				expired = true
				return
			}
			w.exec(hist)
			r.Count("histories")
			if leaf%50021 == 17 {
				r.Sample(map[string]any{"history": c08HistJSON(hist)})
			}
			return
		}
		bufs[d] = w.children(last, bufs[d])
		for _, ch := range bufs[d] {
			rec(append(hist, ch))
		}
	}
	start := c08State{q: "", sort: true, level: 0, final: false}
	rec(append(make([]c08State, 0, depth+1), start))
	r.Param("histories_total", fmt.Sprint(leaf))
}
