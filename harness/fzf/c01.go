package fzf

// C01 - filtering is exact: the lines reported are the lines satisfying the query.
// Queries are generated from the grammar (so "well-formed" holds by construction) and evaluated by a
// reference that works on the query AST with plain loops.

import (
	"encoding/json"
	"fmt"
	"os"
	"strings"
	"testing"
	"unicode"

	"github.com/junegunn/fzf/src/algo"
	"github.com/junegunn/fzf/src/util"
	kit "github.com/junegunn/fzf/src/verifkit"
)

type rkind int

const (
	rkFuzzy rkind = iota
	rkExact
	rkBoundary
	rkPrefix
	rkSuffix
	rkEqual
)

var rkNames = []string{"fuzzy", "exact", "boundary", "prefix", "suffix", "equal"}

type rterm struct {
	kind rkind
	neg  bool
	text string
}

func (t rterm) String() string {
	n := ""
	if t.neg {
		n = "not "
	}
	return fmt.Sprintf("%s%s(%q)", n, rkNames[t.kind], t.text)
}

func c01IsWord(r rune) bool { return unicode.IsLetter(r) || unicode.IsNumber(r) }

func c01Fold(r rune, cs, nz bool) rune {
	if !cs {
		r = unicode.ToLower(r)
	}
	if nz {
		r = algo.NormalizeRunes([]rune{r})[0]
	}
	return r
}

func c01HasUpper(s string) bool { return s != strings.ToLower(s) }
func c01HasAccent(s string) bool {
	l := strings.ToLower(s)
	return l != string(algo.NormalizeRunes([]rune(l)))
}

// a line with its four foldings, computed once
type rline struct {
	s    string
	raw  []rune
	fold [2][2][]rune // [cs][nz]
	lead int
	trail int
}

func mkLine(s string) *rline {
	l := &rline{s: s, raw: []rune(s)}
	for cs := 0; cs < 2; cs++ {
		for nz := 0; nz < 2; nz++ {
			f := make([]rune, len(l.raw))
			for i, r := range l.raw {
				f[i] = c01Fold(r, cs == 1, nz == 1)
			}
			l.fold[cs][nz] = f
		}
	}
	for l.lead < len(l.raw) && unicode.IsSpace(l.raw[l.lead]) {
		l.lead++
	}
	for l.trail < len(l.raw) && unicode.IsSpace(l.raw[len(l.raw)-1-l.trail]) {
		l.trail++
	}
	return l
}

func b2i(b bool) int {
	if b {
		return 1
	}
	return 0
}

// a term prepared for a configuration: smart case and normalisation decided from the term's own text
type pterm struct {
	rterm
	cs, nz bool
	pat    []rune
}

func prepTerm(t rterm, caseMode int, normalizeOpt bool) pterm {
	cs := caseMode == 2 || caseMode == 0 && c01HasUpper(t.text)
	nz := normalizeOpt && !c01HasAccent(t.text)
	pat := []rune(t.text)
	if !cs {
		pat = []rune(strings.ToLower(t.text))
	}
	if nz {
		pat = algo.NormalizeRunes(pat)
	}
	return pterm{t, cs, nz, pat}
}

func (t *pterm) holds(l *rline) bool {
	fl, raw, pat := l.fold[b2i(t.cs)][b2i(t.nz)], l.raw, t.pat
	eqAt := func(s int) bool {
		if s < 0 || s+len(pat) > len(fl) {
			return false
		}
		for i := range pat {
			if fl[s+i] != pat[i] {
				return false
			}
		}
		return true
	}
	res := false
	switch t.kind {
	case rkFuzzy:
		i := 0
		for _, r := range fl {
			if i < len(pat) && r == pat[i] {
				i++
			}
		}
		res = i == len(pat)
	case rkExact:
		for s := 0; s+len(pat) <= len(fl); s++ {
			if eqAt(s) {
				res = true
				break
			}
		}
	case rkBoundary:
		for s := 0; s+len(pat) <= len(fl); s++ {
			e := s + len(pat)
			if eqAt(s) && (s == 0 || !c01IsWord(raw[s-1])) && (e == len(raw) || !c01IsWord(raw[e])) {
				res = true
				break
			}
		}
	case rkPrefix:
		s := l.lead
		if unicode.IsSpace(pat[0]) {
			s = 0
		}
		res = eqAt(s)
	case rkSuffix:
		e := len(fl) - l.trail
		if unicode.IsSpace(pat[len(pat)-1]) {
			e = len(fl)
		}
		res = eqAt(e - len(pat))
	case rkEqual:
		s, e := l.lead, len(fl)-l.trail
		if unicode.IsSpace(pat[0]) {
			s = 0
		}
		if unicode.IsSpace(pat[len(pat)-1]) {
			e = len(fl)
		}
		if s > e {
			s, e = 0, 0
		}
		res = e-s == len(pat) && eqAt(s)
	}
	return res != t.neg
}

// render a term in the documented syntax
func c01Render(t rterm, exactMode bool) string {
	txt := strings.ReplaceAll(t.text, " ", "\\ ")
	s := ""
	switch t.kind {
	case rkFuzzy:
		if exactMode || t.neg {
			s = "'" + txt // under --exact the quote un-quotes; !'t is the inverse fuzzy term
		} else {
			s = txt
		}
	case rkExact:
		if exactMode || t.neg {
			s = txt
		} else {
			s = "'" + txt
		}
	case rkBoundary:
		s = "'" + txt + "'"
	case rkPrefix:
		s = "^" + txt
	case rkSuffix:
		s = txt + "$"
	case rkEqual:
		s = "^" + txt + "$"
	}
	if t.neg {
		s = "!" + s
	}
	return s
}

func c01RenderQuery(groups [][]rterm, exactMode bool) string {
	var parts []string
	for _, g := range groups {
		var gs []string
		for _, tm := range g {
			gs = append(gs, c01Render(tm, exactMode))
		}
		parts = append(parts, strings.Join(gs, " | "))
	}
	return strings.Join(parts, " ")
}

type c01cfg struct {
	exactMode bool
	caseMode  int // 0 smart 1 ignore 2 respect
	normalize bool
	forward   bool
	v1        bool
}

func (c c01cfg) String() string {
	return fmt.Sprintf("exact=%v case=%s literal=%v forward=%v algo=%s", c.exactMode, []string{"smart", "-i", "+i"}[c.caseMode], !c.normalize, c.forward, map[bool]string{true: "v1", false: "v2"}[c.v1])
}

func c01Configs() []c01cfg {
	var out []c01cfg
	for _, ex := range []bool{false, true} {
		for cm := 0; cm < 3; cm++ {
			for _, nz := range []bool{true, false} {
				for _, fwd := range []bool{true, false} {
					for _, v1 := range []bool{false, true} {
						out = append(out, c01cfg{ex, cm, nz, fwd, v1})
					}
				}
			}
		}
	}
	return out
}

func (c c01cfg) build(extended bool, q string, cache *ChunkCache, pc map[string]*Pattern, cacheable bool) *Pattern {
	fa := algo.FuzzyMatchV2
	if c.v1 {
		fa = algo.FuzzyMatchV1
	}
	if cache == nil {
		cache = NewChunkCache()
	}
	if pc == nil {
		pc = make(map[string]*Pattern)
	}
	return BuildPattern(cache, pc, !c.exactMode, fa, extended, Case(c.caseMode), c.normalize, c.forward, false, cacheable, nil, Delimiter{}, revision{}, []rune(q), nil)
}

func c01Lines(maxLen int) []*rline {
	var out []*rline
	kit.Strings([]rune{'a', 'b', 'A', 'á', 'Á', ' ', '-', '_'}, 0, maxLen, func(s []rune) bool {
		out = append(out, mkLine(string(s)))
		return true
	})
	for _, s := range []string{"  ab  ", " a b", "ab ab", "a-b_a b", "xab", "abx", "  ", "Áb", "ÁB a_b", "\tab", "ab\t", "a\tb"} {
		out = append(out, mkLine(s))
	}
	return out
}

func c01Items(lines []*rline) []Item {
	items := make([]Item, len(lines))
	for i, l := range lines {
		items[i] = Item{text: util.ToChars([]byte(l.s))}
		items[i].text.Index = int32(i)
	}
	return items
}

func c01TermTexts() []string {
	var out []string
	kit.Strings([]rune{'a', 'b', 'A', 'á', ' '}, 1, 2, func(s []rune) bool {
		out = append(out, string(s))
		return true
	})
	return out
}

func refQuery(groups [][]pterm, l *rline) bool {
	for _, g := range groups {
		any := false
		for i := range g {
			if g[i].holds(l) {
				any = true
				break
			}
		}
		if !any {
			return false
		}
	}
	return true
}

func prepGroups(groups [][]rterm, c c01cfg) [][]pterm {
	out := make([][]pterm, len(groups))
	for i, g := range groups {
		for _, t := range g {
			out[i] = append(out[i], prepTerm(t, c.caseMode, c.normalize))
		}
	}
	return out
}

func c01Check(r *kit.Run, c c01cfg, groups [][]rterm, lines []*rline, items []Item) {
	q := c01RenderQuery(groups, c.exactMode)
	p := c.build(true, q, nil, nil, true)
	pg := prepGroups(groups, c)
	wantSortable := false
	for _, g := range groups {
		for _, t := range g {
			if !t.neg {
				wantSortable = true
			}
		}
	}
	if p.sortable != wantSortable {
		r.Violation("sortable-flag", map[string]any{"config": c.String(), "query": q, "got": p.sortable, "want": wantSortable})
	}
	matched := false
	for i, l := range lines {
		res, _, _ := p.MatchItem(&items[i], false, nil)
		want := refQuery(pg, l)
		r.Eval()
		if want {
			matched = true
		}
		if (res != nil) != want {
			r.Violation(c01Class(groups), map[string]any{"config": c.String(), "query": q, "ast": fmt.Sprint(groups), "line": l.s, "got_match": res != nil, "want_match": want})
		}
	}
	if matched {
		r.NT()
	}
	r.State()
}

func c01Class(groups [][]rterm) string {
	if len(groups) == 1 && len(groups[0]) == 1 {
		t := groups[0][0]
		return fmt.Sprintf("term:%s:neg=%v", rkNames[t.kind], t.neg)
	}
	n := 0
	for _, g := range groups {
		n += len(g)
	}
	return fmt.Sprintf("query:groups=%d:terms=%d", len(groups), n)
}

// ---------------------------------------------------------------- layer: single terms, all configurations
func TestVerif_C01_terms(t *testing.T) {
	r := kit.Start("C01", "terms")
	if r == nil {
		t.Skip()
	}
	defer r.Finish()
	algo.Init("default")
	sortCriteria = []criterion{byScore, byLength}
	lines := c01Lines(r.Pick(4, 5))
	items := c01Items(lines)
	if d := r.Replay(); d != nil {
		c01Replay(r, d, lines, items)
		return
	}
	texts := c01TermTexts()
	r.Param("lines", fmt.Sprint(len(lines)))
	r.Param("term_texts", fmt.Sprint(len(texts)))
	r.Sample(map[string]any{"config": c01Configs()[37].String(), "query": c01Render(rterm{rkBoundary, true, "a "}, false), "line": "a -_"})
	idx := 0
	for _, c := range c01Configs() {
		for k := rkFuzzy; k <= rkEqual; k++ {
			for _, neg := range []bool{false, true} {
				for _, txt := range texts {
					idx++
					if !r.Mine(idx) {
						continue
					}
					if r.ExpiredNow() {
						return
					}
					c01Check(r, c, [][]rterm{{{k, neg, txt}}}, lines, items)
				}
			}
		}
	}
}

func c01Replay(r *kit.Run, d map[string]any, lines []*rline, items []Item) {
	// replays by (config string, query string): regenerate the single-term and multi-term spaces and run the matching ones
	cfgS, _ := d["config"].(string)
	q, _ := d["query"].(string)
	texts := c01TermTexts()
	for _, c := range c01Configs() {
		if c.String() != cfgS {
			continue
		}
		for k := rkFuzzy; k <= rkEqual; k++ {
			for _, neg := range []bool{false, true} {
				for _, txt := range texts {
					g := [][]rterm{{{k, neg, txt}}}
					if c01RenderQuery(g, c.exactMode) == q {
						c01Check(r, c, g, lines, items)
					}
				}
			}
		}
		c01Multi(r, c, lines, items, q)
	}
}

// ---------------------------------------------------------------- layer: AND / OR / mixed queries
func c01Core() []rterm {
	var core []rterm
	for k := rkFuzzy; k <= rkEqual; k++ {
		for _, neg := range []bool{false, true} {
			for _, txt := range []string{"a", "ab", "A", "á"} {
				core = append(core, rterm{k, neg, txt})
			}
		}
	}
	return core
}

func c01Multi(r *kit.Run, c c01cfg, lines []*rline, items []Item, only string) {
	core := c01Core()
	small := []rterm{}
	for i := 0; i < len(core); i += 4 {
		small = append(small, core[i]) // text "a", every kind x negation: 12 terms
	}
	run := func(g [][]rterm) {
		if only != "" && c01RenderQuery(g, c.exactMode) != only {
			return
		}
		c01Check(r, c, g, lines, items)
	}
	for _, t1 := range core {
		for _, t2 := range core {
			run([][]rterm{{t1}, {t2}}) // AND
			run([][]rterm{{t1, t2}})   // OR
		}
	}
	for _, t1 := range small {
		for _, t2 := range small {
			for _, t3 := range small {
				run([][]rterm{{t1}, {t2, t3}}) // t1 (t2 | t3)
				run([][]rterm{{t1, t2}, {t3}}) // (t1 | t2) t3
			}
		}
	}
	if r.Thorough() || only != "" {
		for _, t1 := range small {
			for _, t2 := range small {
				for _, t3 := range small {
					run([][]rterm{{t1}, {t2}, {t3}}) // three AND groups
					run([][]rterm{{t1, t2, t3}})     // three-way OR
				}
			}
		}
	}
}

func TestVerif_C01_multi(t *testing.T) {
	r := kit.Start("C01", "multi")
	if r == nil {
		t.Skip()
	}
	defer r.Finish()
	algo.Init("default")
	sortCriteria = []criterion{byScore, byLength}
	lines := c01Lines(r.Pick(4, 5))
	items := c01Items(lines)
	if d := r.Replay(); d != nil {
		c01Replay(r, d, lines, items)
		return
	}
	r.Sample(map[string]any{"config": c01Configs()[5].String(), "query": c01RenderQuery([][]rterm{{{rkPrefix, false, "a"}}, {{rkFuzzy, true, "ab"}, {rkEqual, false, "A"}}}, false)})
	// configurations: every exact x case x literal combination with the default algorithm and direction,
	// plus backward and v1 once each (the per-term layer covers the full product)
	var cfgs []c01cfg
	for _, c := range c01Configs() {
		if (c.forward && !c.v1) || (c.caseMode == 0 && c.normalize && (c.forward != c.v1)) {
			cfgs = append(cfgs, c)
		}
	}
	for i, c := range cfgs {
		if !r.Mine(i) {
			continue
		}
		if r.ExpiredNow() {
			return
		}
		c01Multi(r, c, lines, items, "")
	}
}

// ---------------------------------------------------------------- layer: --no-extended
func TestVerif_C01_noext(t *testing.T) {
	r := kit.Start("C01", "no-extended")
	if r == nil {
		t.Skip()
	}
	defer r.Finish()
	algo.Init("default")
	sortCriteria = []criterion{byScore, byLength}
	var lines []*rline
	kit.Strings([]rune{'a', 'A', 'á', ' ', '!', '\'', '|'}, 0, r.Pick(4, 5), func(s []rune) bool {
		lines = append(lines, mkLine(string(s)))
		return true
	})
	items := c01Items(lines)
	var queries []string
	kit.Strings([]rune{'a', 'A', 'á', ' ', '\'', '^', '!', '|', '$'}, 1, 3, func(s []rune) bool {
		queries = append(queries, string(s))
		return true
	})
	r.Sample(map[string]any{"config": "--no-extended " + c01Configs()[3].String(), "query": "!a|", "line": "a!|"})
	idx := 0
	for _, c := range c01Configs() {
		for _, q := range queries {
			idx++
			if !r.Mine(idx) {
				continue
			}
			if r.ExpiredNow() {
				return
			}
			p := c.build(false, q, nil, nil, true)
			// the whole string is one term; case and normalisation are decided from the whole string
			kind := rkFuzzy
			if c.exactMode {
				kind = rkExact
			}
			pt := prepTerm(rterm{kind, false, q}, c.caseMode, c.normalize)
			matched := false
			for i, l := range lines {
				res, _, _ := p.MatchItem(&items[i], false, nil)
				want := pt.holds(l)
				r.Eval()
				matched = matched || want
				if (res != nil) != want {
					r.Violation("no-extended", map[string]any{"config": "--no-extended " + c.String(), "query": q, "line": l.s, "got_match": res != nil, "want_match": want})
				}
			}
			if matched {
				r.NT()
			}
			r.State()
		}
	}
}

// ---------------------------------------------------------------- layer: results do not depend on cache state
// Two-step histories: every ordered pair (q1, q2) of the core set on a shared ChunkCache and pattern
// cache over > 2 full chunks; the matches of q2 must be the reference set.
func TestVerif_C01_cache(t *testing.T) {
	r := kit.Start("C01", "cache-histories")
	if r == nil {
		t.Skip()
	}
	defer r.Finish()
	algo.Init("default")
	sortCriteria = []criterion{byScore, byLength}
	lines := c01Lines(r.Pick(4, 5))
	for len(lines)%chunkSize != 37 { // a partial last chunk
		lines = lines[:len(lines)-1]
	}
	var ord int32
	cl := NewChunkList(NewChunkCache(), func(item *Item, data []byte) bool {
		item.text = util.ToChars(data)
		item.text.Index = ord
		ord++
		return true
	})
	for _, l := range lines {
		cl.Push([]byte(l.s))
	}
	chunks, _, _ := cl.Snapshot(0)
	r.Param("chunks", fmt.Sprint(len(chunks)))
	var core [][][]rterm
	for _, txt := range []string{"a", "b", "ab", "ba", "A", "aa", "á"} {
		for k := rkFuzzy; k <= rkEqual; k++ {
			core = append(core, [][]rterm{{{k, false, txt}}})
		}
		core = append(core, [][]rterm{{{rkFuzzy, true, txt}}}, [][]rterm{{{rkExact, true, txt}}})
	}
	core = append(core,
		[][]rterm{{{rkFuzzy, false, "a"}}, {{rkFuzzy, false, "b"}}},
		[][]rterm{{{rkFuzzy, false, "ab"}}, {{rkFuzzy, false, "a"}}},
		[][]rterm{{{rkFuzzy, false, "a"}, {rkFuzzy, false, "b"}}},
		[][]rterm{{{rkFuzzy, false, "a"}}, {{rkFuzzy, true, "b"}}},
		[][]rterm{{{rkExact, false, "a"}}, {{rkExact, false, "b"}}},
		[][]rterm{{{rkFuzzy, false, "b"}}, {{rkPrefix, false, "a"}}},
	)
	cfgs := []c01cfg{{false, 0, true, true, false}, {true, 0, true, true, false}, {false, 1, true, true, false}, {false, 0, false, false, false}}
	r.Sample(map[string]any{"config": cfgs[0].String(), "history": []string{"a", "ab"}, "chunks": len(chunks)})
	slab := util.MakeSlab(slab16Size, slab32Size)
	idx := 0
	for _, c := range cfgs {
		// reference sets per query
		want := make([]map[int32]bool, len(core))
		for qi, g := range core {
			pg := prepGroups(g, c)
			want[qi] = map[int32]bool{}
			for i, l := range lines {
				if refQuery(pg, l) {
					want[qi][int32(i)] = true
				}
			}
		}
		for i1, g1 := range core {
			for i2, g2 := range core {
				idx++
				if !r.Mine(idx) {
					continue
				}
				if r.ExpiredNow() {
					return
				}
				cache := NewChunkCache()
				pc := make(map[string]*Pattern)
				q1, q2 := c01RenderQuery(g1, c.exactMode), c01RenderQuery(g2, c.exactMode)
				p1 := c.build(true, q1, cache, pc, true)
				for _, ch := range chunks {
					p1.Match(ch, slab)
				}
				for _, qc := range cache.cache {
					r.CountN("cache_entries_after_q1", len(*qc))
				}
				p2 := c.build(true, q2, cache, pc, true)
				got := map[int32]bool{}
				n := 0
				for _, ch := range chunks {
					for _, res := range p2.Match(ch, slab) {
						got[res.item.Index()] = true
						n++
					}
				}
				r.Eval()
				r.Trans()
				bad := n != len(got) || len(got) != len(want[i2])
				for k := range got {
					if !want[i2][k] {
						bad = true
					}
				}
				if bad {
					r.Violation("cache-history-changes-result", map[string]any{"config": c.String(), "history": []string{q1}, "query": q2, "got": len(got), "emitted": n, "want": len(want[i2])})
				} else if len(got) > 0 {
					r.NT()
				}
				_ = i1
				r.State()
			}
		}
	}
}

// ---------------------------------------------------------------- export for the CLI layer
// Writes, for every configuration and every query of a core set, the reference set of matching lines. The python
// side runs the real binary (`fzf --filter`) with the corresponding options and compares the emitted set.
func TestVerif_C01_export(t *testing.T) {
	r := kit.Start("C01", "cli-export")
	if r == nil {
		t.Skip()
	}
	defer r.Finish()
	if r.Shard != 0 {
		return
	}
	lines := c01Lines(3)
	type entry struct {
		Exact   bool   `json:"exact"`
		Case    int    `json:"case"`
		Literal bool   `json:"literal"`
		Forward bool   `json:"forward"`
		V1      bool   `json:"v1"`
		NoExt   bool   `json:"noext"`
		Query   string `json:"query"`
		Match   []int  `json:"match"`
	}
	var out struct {
		Lines   []string `json:"lines"`
		Entries []entry  `json:"entries"`
	}
	for _, l := range lines {
		out.Lines = append(out.Lines, l.s)
	}
	var queries [][][]rterm
	for k := rkFuzzy; k <= rkEqual; k++ {
		for _, neg := range []bool{false, true} {
			for _, txt := range []string{"a", "ab", "A", "á", "a "} {
				queries = append(queries, [][]rterm{{{k, neg, txt}}})
			}
		}
	}
	queries = append(queries,
		[][]rterm{{{rkFuzzy, false, "a"}}, {{rkFuzzy, false, "b"}}},
		[][]rterm{{{rkFuzzy, false, "a"}, {rkPrefix, false, "b"}}},
		[][]rterm{{{rkExact, false, "ab"}}, {{rkFuzzy, true, "A"}, {rkSuffix, false, "a"}}},
		[][]rterm{{{rkBoundary, false, "a"}}, {{rkEqual, true, "a"}}},
	)
	for _, c := range c01Configs() {
		for _, g := range queries {
			pg := prepGroups(g, c)
			e := entry{Exact: c.exactMode, Case: c.caseMode, Literal: !c.normalize, Forward: c.forward, V1: c.v1, Query: c01RenderQuery(g, c.exactMode)}
			for i, l := range lines {
				if refQuery(pg, l) {
					e.Match = append(e.Match, i)
				}
			}
			out.Entries = append(out.Entries, e)
			r.Eval()
		}
		// --no-extended: the whole string is one term
		for _, q := range []string{"a b", "!a", "'a", "a|b", "^a", "a$"} {
			kind := rkFuzzy
			if c.exactMode {
				kind = rkExact
			}
			pt := prepTerm(rterm{kind, false, q}, c.caseMode, c.normalize)
			e := entry{Exact: c.exactMode, Case: c.caseMode, Literal: !c.normalize, Forward: c.forward, V1: c.v1, NoExt: true, Query: q}
			for i, l := range lines {
				if pt.holds(l) {
					e.Match = append(e.Match, i)
				}
			}
			out.Entries = append(out.Entries, e)
			r.Eval()
		}
	}
	b, err := json.Marshal(&out)
	if err != nil {
		t.Fatal(err)
	}
	if err := os.WriteFile(os.Getenv("VERIF_OUT")+".export", b, 0o644); err != nil {
		t.Fatal(err)
	}
}
