package fzf

// C04 layer (b): Matcher.scan with 2-3 worker partitions under every schedule (Engine B): the merged order
// never depends on worker scheduling. Also C05: per-item rank keys are identical for all schedules.

import (
	"fmt"
	"strings"
	"testing"

	kit "github.com/junegunn/fzf/src/verifkit"
)

var c04bPool = []string{"ab", "a b", "xab", "ab ", "a/b", "b a", "aab", "ab", "zzz", "a_b", "abab", "ba"}

func c04bBody(partitions, items int, tac bool, query string) func() string {
	return func() string {
		e := schedNewEnv()
		sortCriteria = []criterion{byScore, byLength, byBegin}
		for i := 0; i < items; i++ {
			e.cl.Push([]byte(c04bPool[i%len(c04bPool)]))
		}
		snap, _, _ := e.cl.Snapshot(0)
		m := NewMatcher(e.cache, e.pb, true, tac, e.eb, revision{})
		m.partitions = partitions
		mg, cancelled := m.scan(MatchRequest{chunks: snap, pattern: e.pb([]rune(query))})
		if cancelled {
			return "BAD cancelled"
		}
		var sb strings.Builder
		for i := 0; i < mg.Length(); i++ {
			res := mg.Get(i)
			fmt.Fprintf(&sb, "%d:%v ", res.item.Index(), res.points)
		}
		return sb.String()
	}
}

func TestVerif_C04_scan_schedules(t *testing.T) {
	r := kit.Start("C04", "scan-schedules")
	if r == nil {
		t.Skip()
	}
	defer r.Finish()
	r.Param("chunkSize", fmt.Sprint(chunkSize))
	bound := schedBound(r, 2, 3)
	idx := 0
	shard, n := r.Shard, r.NShards
	for _, parts := range []int{2, 3} {
		for _, chunks := range []int{2, 3} {
			for _, tac := range []bool{false, true} {
				for _, q := range []string{"ab", "!z", "a b"} {
					idx++
					name := fmt.Sprintf("scan partitions=%d chunks=%d tac=%v q=%q", parts, chunks, tac, q)
					if d := r.Replay(); d != nil {
						if s, _ := d["scenario"].(string); s != name {
							continue
						}
					} else if idx%n != shard {
						continue
					}
					if r.ExpiredNow() {
						r.Cap("time")
						return
					}
					items := chunks*chunkSize - 1
					// the reference outcome: one partition, no concurrency between workers
					want := c04bBody(1, items, tac, q)()
					r.Shard, r.NShards = 0, 1
					schedExplore(r, schedScenario{name, c04bBody(parts, items, tac, q), func(out string) string {
						if out != want {
							return "BAD order/keys differ from the single-partition result: " + out
						}
						return ""
					}}, bound)
					r.Shard, r.NShards = shard, n
				}
			}
		}
	}
}
