package fzf

// Free-running pass of the C13 scenarios under Go's race detector (no controlled scheduler: its hand-offs would
// be happens-before edges that blind the detector). A report is a true race; silence proves nothing.

import (
	"fmt"
	"os"
	"strconv"
	"sync"
	"testing"
	"time"

	kit "github.com/junegunn/fzf/src/verifkit"
)

func TestVerif_C13_race(t *testing.T) {
	r := kit.Start("C13", "race-pass")
	if r == nil {
		t.Skip()
	}
	defer r.Finish()
	secs, _ := strconv.Atoi(os.Getenv("VERIF_RACE_SECONDS"))
	if secs <= 0 {
		secs = 10
	}
	deadline := time.Now().Add(time.Duration(secs) * time.Second)
	iter := 0
	for time.Now().Before(deadline) {
		iter++
		tail, _ := strconv.Atoi(os.Getenv("VERIF_RACE_TAIL"))
		c13RaceOnce(r, tail, 20000+iter%7*1000)
		if tail > 0 {
			continue // the --tail pass only runs the snapshot-trimming scenario
		}
		// the deterministic scenario bodies, free-running
		for _, body := range []func() string{c13S1(0), c13S1(3), c13S1Old, c13S2, c13S3, c13S4, c13S5} {
			out := body()
			r.Eval()
			if schedBadPrefix(out) != "" {
				r.Violation("free-running:bad-outcome", map[string]any{"outcome": out})
			}
		}
	}
	r.Sample(map[string]any{"iterations": iter, "seconds": secs})
	r.Cap("free-running pass: a sample of schedules by construction")
}

// loader pushes, the coordinator snapshots (optionally with --tail), the matcher scans the previous snapshot
// (a retry-type request is never cancelled) - the shape of core.go's event loop while input is loading.
func c13RaceOnce(r *kit.Run, tail int, total int) {
	e := schedNewEnv()
	var pcm sync.Mutex
	pb := func(q []rune) *Pattern {
		pcm.Lock()
		defer pcm.Unlock()
		return e.pb(q)
	}
	m := NewMatcher(e.cache, pb, true, false, e.eb, revision{})
	var wg sync.WaitGroup
	wg.Add(1)
	go func() {
		defer wg.Done()
		for i := 0; i < total; i++ {
			e.cl.Push([]byte(fmt.Sprintf(" a%d ", i)))
		}
	}()
	snaps := make(chan []*Chunk, 4)
	wg.Add(1)
	go func() {
		defer wg.Done()
		for s := range snaps {
			m.scan(MatchRequest{chunks: s, pattern: pb([]rune("a"))})
			r.Eval()
		}
	}()
	for i := 0; i < 2000; i++ {
		s, _, _ := e.cl.Snapshot(tail)
		select {
		case snaps <- s:
		default:
		}
	}
	close(snaps)
	wg.Wait()
}
