package fzf

// C10 - field expressions select exactly the documented fields.
//
// Reference model (explicit loops, no regexp, no strings.Split):
//   * a delimiter is a function "length of the delimiter occurrence starting at rune i (0 = none)";
//     a line is cut after every leftmost, non-overlapping occurrence; AWK mode is blank-skipping;
//   * a field is a [start,end) span of the line IN RUNES, so partition and offsets are checked at once;
//   * a field index expression is (optional begin, optional end); negative = counted from the end;
//     the selection is the clipped contiguous run of fields, possibly empty.
// The same evaluator is used for Transform, --nth matching, with-nth / accept-nth templates and
// {N} placeholders.

import (
	"bytes"
	"fmt"
	"os"
	"os/exec"
	"sort"
	"strconv"
	"strings"
	"testing"
	"unicode"

	"github.com/junegunn/fzf/src/algo"
	"github.com/junegunn/fzf/src/util"
	kit "github.com/junegunn/fzf/src/verifkit"
)

// ---------------------------------------------------------------- reference: delimiters and fields

type c10Span struct{ s, e int }

type c10Delim struct {
	arg     string // value of --delimiter; "" = AWK default
	d       Delimiter
	awk     bool
	literal bool // literal string delimiter: a line ending in a delimiter has a trailing EMPTY field (awk -F style)
	at      func(r []rune, i int) int
}

func (dl *c10Delim) String() string {
	if dl.awk {
		return "AWK"
	}
	return dl.arg
}

func c10Lit(s string) func([]rune, int) int {
	rs := []rune(s)
	return func(r []rune, i int) int {
		if i+len(rs) > len(r) {
			return 0
		}
		for k := range rs {
			if r[i+k] != rs[k] {
				return 0
			}
		}
		return len(rs)
	}
}

func c10Run(c rune) func([]rune, int) int {
	return func(r []rune, i int) int {
		n := 0
		for i+n < len(r) && r[i+n] == c {
			n++
		}
		return n
	}
}

func c10Class(cs string) func([]rune, int) int {
	return func(r []rune, i int) int {
		if i < len(r) && strings.ContainsRune(cs, r[i]) {
			return 1
		}
		return 0
	}
}

// every delimiter is built the way the option parser builds it (delimiterRegexp); whether fzf
// treats it as a literal or as a regular expression is read back from the result.
func c10AllDelims() []*c10Delim {
	mk := func(arg string, at func([]rune, int) int) *c10Delim {
		dl := &c10Delim{arg: arg, at: at}
		if arg == "" {
			dl.awk = true
			return dl
		}
		dl.d = delimiterRegexp(arg)
		dl.literal = dl.d.str != nil
		return dl
	}
	return []*c10Delim{
		mk("", nil),
		mk(":", c10Lit(":")),
		mk("::", c10Lit("::")),
		mk("[:,]", c10Class(":,")),
		mk(":+", c10Run(':')),
		mk(" +", c10Run(' ')),
	}
}

func c10DelimByName(name string) *c10Delim {
	for _, dl := range c10AllDelims() {
		if dl.String() == name {
			return dl
		}
	}
	return nil
}

func c10Blank(c rune) bool { return c == ' ' || c == '\t' }

// fields of the line as rune spans
func (dl *c10Delim) fields(r []rune, out []c10Span) []c10Span {
	out = out[:0]
	if dl.awk {
		i := 0
		for i < len(r) && c10Blank(r[i]) {
			i++
		}
		for i < len(r) {
			st := i
			for i < len(r) && !c10Blank(r[i]) {
				i++
			}
			for i < len(r) && c10Blank(r[i]) {
				i++
			}
			out = append(out, c10Span{st, i})
		}
		return out
	}
	begin, i := 0, 0
	for i < len(r) {
		if n := dl.at(r, i); n > 0 {
			out = append(out, c10Span{begin, i + n})
			i += n
			begin = i
		} else {
			i++
		}
	}
	if begin < len(r) || dl.literal {
		out = append(out, c10Span{begin, len(r)})
	}
	return out
}

// text with a delimiter occurrence at its very end removed (the occurrence is found by scanning the
// text itself from its start, leftmost and non-overlapping, as documented for templates/placeholders)
func (dl *c10Delim) stripDelim(t []rune) []rune {
	if dl.awk {
		return t
	}
	if dl.literal {
		n := len([]rune(*dl.d.str))
		if len(t) >= n && dl.at(t, len(t)-n) == n {
			return t[:len(t)-n]
		}
		return t
	}
	i, lastS, lastE := 0, -1, -1
	for i < len(t) {
		if n := dl.at(t, i); n > 0 {
			lastS, lastE = i, i+n
			i += n
		} else {
			i++
		}
	}
	if lastE == len(t) {
		return t[:lastS]
	}
	return t
}

func c10TrimRight(t []rune) []rune {
	for len(t) > 0 && unicode.IsSpace(t[len(t)-1]) {
		t = t[:len(t)-1]
	}
	return t
}

func c10TrimLeft(t []rune) []rune {
	for len(t) > 0 && unicode.IsSpace(t[0]) {
		t = t[1:]
	}
	return t
}

// ---------------------------------------------------------------- reference: field index expressions

type c10Spec struct {
	expr       string
	hasB, hasE bool
	b, e       int
}

func (sp *c10Spec) form() string {
	switch {
	case sp.hasB && sp.hasE && strings.Contains(sp.expr, ".."):
		return "A..B"
	case sp.hasB && sp.hasE:
		return "N"
	case sp.hasB:
		return "A.."
	case sp.hasE:
		return "..B"
	}
	return ".."
}

// all documented forms with bounds in -m..m \ {0}; A..B with A<0<B is not offered (the parser rejects it)
func c10Specs(m int) []c10Spec {
	var out []c10Spec
	out = append(out, c10Spec{"..", false, false, 0, 0})
	for b := -m; b <= m; b++ {
		if b == 0 {
			continue
		}
		out = append(out, c10Spec{strconv.Itoa(b), true, true, b, b})
		out = append(out, c10Spec{fmt.Sprintf("%d..", b), true, false, b, 0})
		out = append(out, c10Spec{fmt.Sprintf("..%d", b), false, true, 0, b})
		for e := -m; e <= m; e++ {
			if e == 0 || (b < 0 && e > 0) {
				continue
			}
			out = append(out, c10Spec{fmt.Sprintf("%d..%d", b, e), true, true, b, e})
		}
	}
	return out
}

func c10SpecByExpr(expr string) (c10Spec, bool) {
	ok, sp := c10RefParse(expr)
	return sp, ok
}

// selected fields, 0-based inclusive; lo > hi = nothing selected
func c10Select(n int, sp *c10Spec) (int, int) {
	lo, hi := 1, n
	if sp.hasB {
		lo = sp.b
		if lo < 0 {
			lo += n + 1
		}
	}
	if sp.hasE {
		hi = sp.e
		if hi < 0 {
			hi += n + 1
		}
	}
	if lo < 1 {
		lo = 1
	}
	if hi > n {
		hi = n
	}
	return lo - 1, hi - 1
}

// span of the selection in the line; ok=false when nothing is selected
func c10SelSpan(fields []c10Span, sp *c10Spec) (c10Span, bool) {
	lo, hi := c10Select(len(fields), sp)
	if lo > hi {
		return c10Span{}, false
	}
	return c10Span{fields[lo].s, fields[hi].e}, true
}

// reference parser: a non-zero integer, or [BEGIN]..[END] with non-zero integer bounds.
// Pinned from the implementation (the man page is silent): A..B with A < 0 < B is rejected.
func c10RefInt(s string) (int, bool) {
	neg := false
	if strings.HasPrefix(s, "-") {
		neg, s = true, s[1:]
	}
	if s == "" || len(s) > 9 {
		return 0, false
	}
	v := 0
	for _, c := range s {
		if c < '0' || c > '9' {
			return 0, false
		}
		v = v*10 + int(c-'0')
	}
	if v == 0 {
		return 0, false
	}
	if neg {
		v = -v
	}
	return v, true
}

func c10RefParse(s string) (bool, c10Spec) {
	if v, ok := c10RefInt(s); ok {
		return true, c10Spec{s, true, true, v, v}
	}
	for k := 0; k+2 <= len(s); k++ {
		if s[k:k+2] != ".." {
			continue
		}
		a, b := s[:k], s[k+2:]
		sp := c10Spec{expr: s}
		if a != "" {
			v, ok := c10RefInt(a)
			if !ok {
				continue
			}
			sp.hasB, sp.b = true, v
		}
		if b != "" {
			v, ok := c10RefInt(b)
			if !ok {
				continue
			}
			sp.hasE, sp.e = true, v
		}
		if sp.hasB && sp.hasE && sp.b < 0 && sp.e > 0 {
			continue
		}
		return true, sp
	}
	return false, c10Spec{}
}

// ---------------------------------------------------------------- helpers

func c10Lines(alpha []rune, maxLen int) []string {
	var out []string
	kit.Strings(alpha, 0, maxLen, func(s []rune) bool {
		out = append(out, string(s))
		return true
	})
	return out
}

// à is C3 A0 in UTF-8: its continuation byte is a Latin-1 blank (NBSP), é (C3 A9) has none
var c10FieldAlpha = []rune{'a', 'é', 'à', ' ', '\t', ':', ','}

// runs f, reports a panic of the code under test as a violation; false = panicked
func c10Guard(r *kit.Run, detail func() map[string]any, f func()) (ok bool) {
	defer func() {
		if e := recover(); e != nil {
			d := detail()
			d["panic"] = fmt.Sprint(e)
			r.Violation("panic", d)
			ok = false
		}
	}()
	f()
	return true
}

func c10Str(d map[string]any, k string) string {
	s, _ := d[k].(string)
	return s
}

// pairs are built from this reduced set (and joined with a comma, going through splitNth)
var c10PairExprs = []string{"1", "2", "3", "-1", "-2", "2..", "-2..", "..2", "..-2", "2..3", "-3..-2", "2..-2", "..", "4"}

// ---------------------------------------------------------------- layer (a): partition, offsets, range selection

type c10Prepared struct {
	specs  []c10Spec
	ranges []Range
	pairs  [][2]c10Spec
	pairR  [][]Range
	pairX  []string
}

func c10Prepare(r *kit.Run, m int) *c10Prepared {
	p := &c10Prepared{}
	for _, sp := range c10Specs(m) {
		expr := sp.expr
		var rg Range
		var ok bool
		if !c10Guard(r, func() map[string]any { return map[string]any{"range": sp.expr} }, func() { rg, ok = ParseRange(&expr) }) {
			continue
		}
		if !ok {
			r.Violation("parse:documented-form-rejected", map[string]any{"range": sp.expr})
			continue
		}
		p.specs = append(p.specs, sp)
		p.ranges = append(p.ranges, rg)
	}
	for _, e1 := range c10PairExprs {
		for _, e2 := range c10PairExprs {
			s1, _ := c10SpecByExpr(e1)
			s2, _ := c10SpecByExpr(e2)
			x := e1 + "," + e2
			nth, err := splitNth(x)
			if err != nil || len(nth) != 2 {
				r.Violation("parse:list-rejected", map[string]any{"range": x, "err": fmt.Sprint(err)})
				continue
			}
			p.pairs = append(p.pairs, [2]c10Spec{s1, s2})
			p.pairR = append(p.pairR, nth)
			p.pairX = append(p.pairX, x)
		}
	}
	return p
}

// one work unit: a line under a delimiter, every range expression. only != "" restricts to one expression.
func c10CheckLine(r *kit.Run, dl *c10Delim, line string, p *c10Prepared, withPairs bool, only string, buf *[]c10Span) {
	rl := []rune(line)
	ref := dl.fields(rl, *buf)
	*buf = ref
	det := func() map[string]any { return map[string]any{"delimiter": dl.String(), "line": line} }
	var toks []Token
	if !c10Guard(r, det, func() { toks = Tokenize(line, dl.d) }) {
		return
	}
	r.Eval()
	// properties of the output alone: partition and offsets in runes
	concat, okOff := "", true
	texts := make([]string, len(toks))
	for i, tk := range toks {
		s := tk.text.ToString()
		texts[i] = s
		concat += s
		st := int(tk.prefixLength)
		n := len([]rune(s))
		if st < 0 || st+n > len(rl) || string(rl[st:st+n]) != s {
			okOff = false
			d := det()
			d["field"], d["text"], d["offset"] = i+1, s, st
			r.Violation("offset-is-not-where-the-field-is:"+dl.String(), d)
		}
	}
	want := line
	if dl.awk {
		want = string(c10TrimLeftBlank(rl))
	}
	if concat != want {
		d := det()
		d["concatenated"] = concat
		r.Violation("fields-do-not-partition-the-line:"+dl.String(), d)
		return
	}
	// against the reference tokenizer
	if len(toks) != len(ref) {
		d := det()
		d["got_fields"], d["want_fields"] = texts, c10SpanTexts(rl, ref)
		r.Violation("field-count:"+dl.String(), d)
		return
	}
	for i := range ref {
		if texts[i] != string(rl[ref[i].s:ref[i].e]) || int(toks[i].prefixLength) != ref[i].s {
			d := det()
			d["field"], d["got"], d["got_offset"], d["want"], d["want_offset"] = i+1, texts[i], toks[i].prefixLength, string(rl[ref[i].s:ref[i].e]), ref[i].s
			r.Violation("field:"+dl.String(), d)
			return
		}
	}
	if !okOff {
		return
	}
	r.Outcome(fmt.Sprintf("%s fields=%d", dl.String(), len(ref)))
	if len(ref) > 1 {
		r.NT()
	}
	for i := range ref {
		if ref[i].s > 0 && len(line) != len(rl) && len(string(rl[:ref[i].s])) != ref[i].s {
			r.Count("fields_after_multibyte")
		}
		if ref[i].s == ref[i].e {
			r.Count("empty_fields")
		}
	}
	check := func(form, expr string, sp *c10Spec, got Token) {
		r.Eval()
		span, sel := c10SelSpan(ref, sp)
		wantTxt := ""
		if sel {
			wantTxt = string(rl[span.s:span.e])
		}
		gotTxt := got.text.ToString()
		if gotTxt != wantTxt {
			d := det()
			d["range"], d["got"], d["want"], d["fields"] = expr, gotTxt, wantTxt, len(ref)
			r.Violation("select:"+form+":text", d)
			return
		}
		if sel && int(got.prefixLength) != span.s {
			d := det()
			d["range"], d["text"], d["got_offset"], d["want_offset"], d["fields"] = expr, gotTxt, got.prefixLength, span.s, len(ref)
			r.Violation("select:"+form+":offset", d)
			return
		}
		if sel && (span.s > 0 || span.e < len(rl)) {
			r.NT()
			if span.s > 0 {
				r.Count("selection_not_at_line_start")
				if c10Sampled < 3 && len(ref) >= 3 && len(line) != len(rl) && len(rl) >= 5 && sp.b < 0 {
					c10Sampled++
					r.Sample(map[string]any{"delimiter": dl.String(), "line": line, "fields": texts, "range": expr, "selected": gotTxt, "offset": got.prefixLength})
				}
			}
		} else if !sel {
			r.Count("empty_selection")
		}
	}
	for si := range p.specs {
		sp := &p.specs[si]
		if only != "" && sp.expr != only {
			continue
		}
		var tr []Token
		d2 := func() map[string]any { d := det(); d["range"] = sp.expr; return d }
		if !c10Guard(r, d2, func() { tr = Transform(toks, []Range{p.ranges[si]}) }) {
			continue
		}
		if len(tr) != 1 {
			r.Violation("select:token-count", d2())
			continue
		}
		check(sp.form(), sp.expr, sp, tr[0])
	}
	if withPairs {
		for pi := range p.pairs {
			if only != "" && p.pairX[pi] != only {
				continue
			}
			var tr []Token
			d2 := func() map[string]any { d := det(); d["range"] = p.pairX[pi]; return d }
			if !c10Guard(r, d2, func() { tr = Transform(toks, p.pairR[pi]) }) {
				continue
			}
			if len(tr) != 2 {
				r.Violation("select:token-count", d2())
				continue
			}
			check("list", p.pairX[pi], &p.pairs[pi][0], tr[0])
			check("list", p.pairX[pi], &p.pairs[pi][1], tr[1])
		}
	}
	// Transform must not have changed the tokens it was given
	for i, tk := range toks {
		if tk.text.ToString() != texts[i] || int(tk.prefixLength) != ref[i].s {
			r.Violation("transform-changes-its-input", det())
			break
		}
	}
}

var c10Sampled int

func c10TrimLeftBlank(r []rune) []rune {
	for len(r) > 0 && c10Blank(r[0]) {
		r = r[1:]
	}
	return r
}

func c10SpanTexts(rl []rune, sp []c10Span) []string {
	out := make([]string, len(sp))
	for i, s := range sp {
		out[i] = string(rl[s.s:s.e])
	}
	return out
}

func TestVerif_C10_fields(t *testing.T) {
	r := kit.Start("C10", "fields")
	if r == nil {
		t.Skip()
	}
	defer r.Finish()
	p := c10Prepare(r, 4)
	var buf []c10Span
	if d := r.Replay(); d != nil {
		dl := c10DelimByName(c10Str(d, "delimiter"))
		if dl == nil {
			r.Note("replay: unknown delimiter")
			return
		}
		c10CheckLine(r, dl, c10Str(d, "line"), p, true, c10Str(d, "range"), &buf)
		return
	}
	maxLen := r.Pick(6, 7)
	pairLen := r.Pick(4, 5)
	lines := c10Lines(c10FieldAlpha, maxLen)
	delims := c10AllDelims()
	r.Param("lines", fmt.Sprint(len(lines)))
	r.Param("range_expressions", fmt.Sprint(len(p.specs)))
	r.Param("range_lists", fmt.Sprint(len(p.pairs)))
	for _, dl := range delims {
		kind := "regex (no trailing empty field)"
		if dl.awk {
			kind = "AWK"
		} else if dl.literal {
			kind = "literal (trailing empty field)"
		}
		r.Param("delimiter "+dl.String(), kind)
	}
	idx := 0
	for _, ln := range lines {
		nr := len([]rune(ln))
		for _, dl := range delims {
			idx++
			if !r.Mine(idx) {
				continue
			}
			if r.Expired() {
				return
			}
			c10CheckLine(r, dl, ln, p, nr <= pairLen, "", &buf)
		}
	}
}

// ---------------------------------------------------------------- layer (b): the parser is total and accepts exactly the documented forms

func c10CheckParse(r *kit.Run, s string, toks [][]Token, refs [][]c10Span) {
	var rg Range
	var ok bool
	x := s
	if !c10Guard(r, func() map[string]any { return map[string]any{"expression": s} }, func() { rg, ok = ParseRange(&x) }) {
		return
	}
	r.Eval()
	want, sp := c10RefParse(s)
	if ok != want {
		cls := "parse:accepts-undocumented-form"
		if want {
			cls = "parse:rejects-documented-form"
		}
		r.Violation(cls, map[string]any{"expression": s, "got_accepted": ok, "want_accepted": want})
		return
	}
	if x != s {
		r.Violation("parse:changes-its-argument", map[string]any{"expression": s, "after": x})
	}
	if !ok {
		r.Outcome("rejected")
		return
	}
	r.NT()
	r.Outcome("accepted " + sp.form())
	// the accepted value means what the text says, for every field count 0..6
	for n := range toks {
		var tr []Token
		det := func() map[string]any { return map[string]any{"expression": s, "fields": n} }
		if !c10Guard(r, det, func() { tr = Transform(toks[n], []Range{rg}) }) {
			continue
		}
		r.Eval()
		lo, hi := c10Select(n, &sp)
		want := ""
		for i := lo; i <= hi; i++ {
			want += toks[n][i].text.ToString()
		}
		if got := tr[0].text.ToString(); got != want {
			d := det()
			d["got"], d["want"], d["parsed"] = got, want, fmt.Sprint(rg)
			r.Violation("parse:value:"+sp.form(), d)
			break
		}
	}
	// comma lists go through the same parser
	if nth, err := splitNth(s + "," + s); err != nil || len(nth) != 2 || nth[0] != rg || nth[1] != rg {
		r.Violation("parse:list-differs", map[string]any{"expression": s + "," + s, "err": fmt.Sprint(err)})
	}
}

func TestVerif_C10_parse(t *testing.T) {
	r := kit.Start("C10", "parse")
	if r == nil {
		t.Skip()
	}
	defer r.Finish()
	var toks [][]Token
	var refs [][]c10Span
	for n := 0; n <= 6; n++ {
		toks = append(toks, Tokenize(strings.Repeat("x ", n), Delimiter{}))
	}
	if d := r.Replay(); d != nil {
		c10CheckParse(r, c10Str(d, "expression"), toks, refs)
		return
	}
	r.Sample(map[string]any{"expression": "-2..-1", "accepted": true})
	r.Sample(map[string]any{"expression": "1..-0", "accepted": false})
	idx := 0
	kit.Strings([]rune{'-', '.', '1', '2', '0', 'a'}, 0, r.Pick(5, 7), func(s []rune) bool {
		idx++
		if !r.Mine(idx) {
			return true
		}
		if r.Expired() {
			return false
		}
		c10CheckParse(r, string(s), toks, refs)
		return true
	})
}

// ---------------------------------------------------------------- layer (c): --nth and matching

type c10Kind int

const (
	c10Fuzzy c10Kind = iota
	c10Exact
	c10Prefix
	c10Suffix
	c10Equal
	c10Boundary
)

var c10KindNames = []string{"fuzzy", "exact", "prefix", "suffix", "equal", "boundary"}

type c10Query struct {
	kind     c10Kind
	neg      bool
	text     string
	extended bool // false: --no-extended (kinds fuzzy and exact only, exact = --exact)
}

func (q c10Query) render() string {
	if !q.extended {
		return q.text
	}
	s := ""
	switch q.kind {
	case c10Fuzzy:
		s = q.text
		if q.neg {
			s = "'" + s
		}
	case c10Exact:
		s = "'" + q.text
		if q.neg {
			s = q.text
		}
	case c10Prefix:
		s = "^" + q.text
	case c10Suffix:
		s = q.text + "$"
	case c10Equal:
		s = "^" + q.text + "$"
	case c10Boundary:
		s = "'" + q.text + "'"
	}
	if q.neg {
		s = "!" + s
	}
	return s
}

func (q c10Query) String() string {
	m := "extended"
	if !q.extended {
		m = "no-extended"
	}
	n := ""
	if q.neg {
		n = "not-"
	}
	return fmt.Sprintf("%s:%s%s(%s)", m, n, c10KindNames[q.kind], q.text)
}

func (q c10Query) class() string {
	n := ""
	if q.neg {
		n = "not-"
	}
	return n + c10KindNames[q.kind]
}

func c10Queries() []c10Query {
	var out []c10Query
	for _, txt := range []string{"a", "b", "ab", "é"} {
		for k := c10Fuzzy; k <= c10Boundary; k++ {
			out = append(out, c10Query{k, false, txt, true})
		}
		out = append(out, c10Query{c10Fuzzy, true, txt, true}, c10Query{c10Exact, true, txt, true})
		out = append(out, c10Query{c10Fuzzy, false, txt, false}, c10Query{c10Exact, false, txt, false})
	}
	return out
}

func (q c10Query) build(nth []Range, d Delimiter) *Pattern {
	fuzzy := true
	if !q.extended && q.kind == c10Exact {
		fuzzy = false
	}
	return BuildPattern(NewChunkCache(), make(map[string]*Pattern), fuzzy, algo.FuzzyMatchV2, q.extended, CaseSmart, true, true, true, false, nth, d, revision{}, []rune(q.render()), nil)
}

func c10IsWord(c rune) bool { return unicode.IsLetter(c) || unicode.IsNumber(c) }

type c10Line struct {
	s    string
	raw  []rune
	norm []rune // accents folded (used when the term itself has no accent)
}

func c10MkLines(ss []string) []*c10Line {
	out := make([]*c10Line, len(ss))
	for i, s := range ss {
		l := &c10Line{s: s, raw: []rune(s)}
		l.norm = make([]rune, len(l.raw))
		for k, c := range l.raw {
			l.norm[k] = algo.NormalizeRunes([]rune{unicode.ToLower(c)})[0]
		}
		out[i] = l
	}
	return out
}

// is [s,e) an occurrence of the term inside the field [fs,fe) of the line? (all in runes of the full line)
// One predicate serves both directions: a match must exist iff some (s,e) satisfies it, and the
// reported offsets must satisfy it.
func c10Witness(kind c10Kind, fold, raw []rune, fs, fe, s, e int, pat []rune) bool {
	if s < fs || e > fe || s >= e || e-s < len(pat) {
		return false
	}
	if kind == c10Fuzzy {
		if fold[s] != pat[0] || fold[e-1] != pat[len(pat)-1] {
			return false
		}
		k := 0
		for i := s; i < e && k < len(pat); i++ {
			if fold[i] == pat[k] {
				k++
			}
		}
		return k == len(pat)
	}
	if e-s != len(pat) {
		return false
	}
	for i := range pat {
		if fold[s+i] != pat[i] {
			return false
		}
	}
	lead, trail := 0, 0
	for fs+lead < fe && unicode.IsSpace(raw[fs+lead]) {
		lead++
	}
	for fe-trail > fs && unicode.IsSpace(raw[fe-1-trail]) {
		trail++
	}
	switch kind {
	case c10Exact:
		return true
	case c10Boundary:
		return (s == fs || !c10IsWord(raw[s-1])) && (e == fe || !c10IsWord(raw[e]))
	case c10Prefix:
		return s == fs+lead
	case c10Suffix:
		return e == fe-trail
	case c10Equal:
		return s == fs+lead && e == fe-trail
	}
	return false
}

type c10NthCase struct {
	dl    *c10Delim
	list  string
	specs []c10Spec
	nth   []Range
	q     c10Query
	noNth bool // command line only: the option parser dropped --nth (see collapsed)
}

func (sp *c10Spec) full() bool {
	return strings.Contains(sp.expr, "..") && (!sp.hasB || sp.b == 1) && (!sp.hasE || sp.e == -1)
}

// options.go: "If we're not using extended search mode, --nth option becomes irrelevant if it contains the
// whole range" - and likewise when the list is a single whole range. Then the line is searched as it is
// (in particular nothing is stripped from its end).
func (c *c10NthCase) collapsed() bool {
	if c.q.extended && len(c.specs) != 1 {
		return false
	}
	for i := range c.specs {
		if c.specs[i].full() {
			return true
		}
	}
	return false
}

// searchable spans of a line under --nth: one per expression of the list; the last one loses its
// trailing delimiter and trailing white space (non-AWK), "to allow suffix match".
func (c *c10NthCase) spans(l *c10Line, fields []c10Span, out []c10Span) []c10Span {
	out = out[:0]
	if c.noNth {
		return append(out, c10Span{0, len(l.raw)})
	}
	for i := range c.specs {
		sp, ok := c10SelSpan(fields, &c.specs[i])
		if !ok {
			continue
		}
		if i == len(c.specs)-1 && !c.dl.awk {
			t := c10TrimRight(c.dl.stripDelim(l.raw[sp.s:sp.e]))
			sp.e = sp.s + len(t)
		}
		out = append(out, sp)
	}
	return out
}

// reference answer: is there an occurrence of the term inside a searchable span? (first = index of the first such span)
func (c *c10NthCase) exists(l *c10Line, fold, pat []rune, fbuf, sbuf []c10Span) (bool, int, []c10Span, []c10Span) {
	fbuf = c.dl.fields(l.raw, fbuf)
	sbuf = c.spans(l, fbuf, sbuf)
	for si, sp := range sbuf {
		for s := sp.s; s < sp.e; s++ {
			for e := s + 1; e <= sp.e; e++ {
				if c10Witness(c.q.kind, fold, l.raw, sp.s, sp.e, s, e, pat) {
					return true, si, fbuf, sbuf
				}
			}
		}
	}
	return false, -1, fbuf, sbuf
}

func (c *c10NthCase) fold(l *c10Line) ([]rune, []rune) {
	pat := []rune(c.q.text)
	if string(algo.NormalizeRunes(pat)) != c.q.text {
		return l.raw, pat // the term has an accent: no normalisation
	}
	return l.norm, pat
}

func c10CheckNth(r *kit.Run, c *c10NthCase, lines []*c10Line, only string) {
	var p *Pattern
	det := func() map[string]any {
		return map[string]any{"delimiter": c.dl.String(), "nth": c.list, "query": c.q.render(), "mode": c.q.String()}
	}
	if !c10Guard(r, det, func() { p = c.q.build(c.nth, c.dl.d) }) {
		return
	}
	// the query means what the generator meant (query syntax itself is C01's subject)
	if c.q.extended {
		wantTyp := map[c10Kind]termType{c10Fuzzy: termFuzzy, c10Exact: termExact, c10Prefix: termPrefix, c10Suffix: termSuffix, c10Equal: termEqual, c10Boundary: termExactBoundary}[c.q.kind]
		if len(p.termSets) != 1 || len(p.termSets[0]) != 1 || p.termSets[0][0].typ != wantTyp || p.termSets[0][0].inv != c.q.neg {
			r.Violation("harness:query-not-parsed-as-generated", det())
			return
		}
	}
	var fbuf, sbuf []c10Span
	matched := false
	for _, l := range lines {
		if only != "" && l.s != only {
			continue
		}
		fold, pat := c.fold(l)
		var exists bool
		var first int
		exists, first, fbuf, sbuf = c.exists(l, fold, pat, fbuf, sbuf)
		want := exists != c.q.neg
		it := Item{text: util.ToChars([]byte(l.s))}
		var res, res2 *Result
		var offs, offs2 []Offset
		var pos *[]int
		d2 := func() map[string]any { d := det(); d["line"] = l.s; return d }
		if !c10Guard(r, d2, func() {
			res, offs, pos = p.MatchItem(&it, true, nil)
			res2, offs2, _ = p.MatchItem(&it, false, nil) // second call: tokens cached on the item
		}) {
			continue
		}
		r.Eval()
		if (res != nil) != want {
			d := d2()
			d["got_match"], d["want_match"], d["searchable"] = res != nil, want, c10SpanTexts(l.raw, sbuf)
			side := "missed"
			if res != nil {
				side = "outside-selected-fields"
			}
			r.Violation("nth-match:"+c.q.class()+":"+side, d)
			continue
		}
		if (res2 != nil) != (res != nil) {
			r.Violation("nth-match:differs-with-cached-tokens", d2())
			continue
		}
		if want {
			matched = true
		}
		if res == nil || c.q.neg {
			if !want {
				// does the full line match? then --nth made the difference
				for s := 0; s < len(l.raw) && !c.q.neg; s++ {
					for e := s + 1; e <= len(l.raw); e++ {
						if c10Witness(c.q.kind, fold, l.raw, 0, len(l.raw), s, e, pat) {
							r.Count("rejected_only_because_of_nth")
							s = len(l.raw)
							break
						}
					}
				}
			}
			continue
		}
		r.Count("matches")
		if sbuf[first].s > 0 {
			r.NT()
			if len(string(l.raw[:sbuf[first].s])) != sbuf[first].s {
				r.Count("matches_after_multibyte_prefix")
			}
		}
		for which, oo := range [][]Offset{offs, offs2} {
			if len(oo) != 1 {
				r.Violation("nth-offset:count", d2())
				break
			}
			s, e := int(oo[0][0]), int(oo[0][1])
			if s < 0 || e > len(l.raw) || s > e {
				d := d2()
				d["offset"] = []int{s, e}
				r.Violation("nth-offset:outside-line", d)
				break
			}
			ok := false
			for _, sp := range sbuf {
				if c10Witness(c.q.kind, fold, l.raw, sp.s, sp.e, s, e, pat) {
					ok = true
					break
				}
			}
			if !ok {
				d := d2()
				d["offset"], d["text_at_offset"], d["searchable"], d["with_positions"] = []int{s, e}, string(l.raw[s:e]), c10SpanTexts(l.raw, sbuf), which == 0
				r.Violation("nth-offset:"+c.q.class()+":not-an-occurrence-in-the-full-line", d)
				break
			}
			if which == 0 && pos != nil {
				ps := append([]int(nil), *pos...)
				sort.Ints(ps)
				good := len(ps) == len(pat)
				for k := 0; good && k < len(ps); k++ {
					good = ps[k] >= s && ps[k] < e && fold[ps[k]] == pat[k] && (k == 0 || ps[k] > ps[k-1])
				}
				if !good {
					d := d2()
					d["offset"], d["positions"] = []int{s, e}, ps
					r.Violation("nth-positions:"+c.q.class(), d)
					break
				}
			}
		}
	}
	if matched {
		r.State()
	}
}

func c10NthCases(r *kit.Run) []*c10NthCase {
	lists := []string{"1", "2", "-1", "2..", "..2", "1,3", "-2..-1", "3,1", "..", "2,1..", "-2", "..-2,-1"}
	var out []*c10NthCase
	for _, dl := range c10AllDelims() {
		if dl.arg == "[:,]" {
			continue // no comma in this layer's alphabet: it would repeat ':'
		}
		for _, ls := range lists {
			nth, err := splitNth(ls)
			if err != nil {
				r.Violation("parse:list-rejected", map[string]any{"range": ls})
				continue
			}
			var specs []c10Spec
			for _, x := range strings.Split(ls, ",") {
				sp, _ := c10SpecByExpr(x)
				specs = append(specs, sp)
			}
			for _, q := range c10Queries() {
				out = append(out, &c10NthCase{dl: dl, list: ls, specs: specs, nth: nth, q: q})
			}
		}
	}
	return out
}

func TestVerif_C10_nth(t *testing.T) {
	r := kit.Start("C10", "nth-match")
	if r == nil {
		t.Skip()
	}
	defer r.Finish()
	algo.Init("default")
	sortCriteria = []criterion{byScore, byLength}
	cases := c10NthCases(r)
	if d := r.Replay(); d != nil {
		ln := c10Str(d, "line")
		for _, c := range cases {
			if c.dl.String() == c10Str(d, "delimiter") && c.list == c10Str(d, "nth") && c.q.String() == c10Str(d, "mode") {
				c10CheckNth(r, c, c10MkLines([]string{ln}), ln)
			}
		}
		return
	}
	lines := c10MkLines(c10Lines([]rune{'a', 'b', 'é', ' ', ':'}, r.Pick(5, 7)))
	r.Param("lines", fmt.Sprint(len(lines)))
	r.Param("cases", fmt.Sprint(len(cases)))
	r.Sample(map[string]any{"delimiter": ":", "nth": "2", "query": "^a", "line": "éé:ab", "want_match": true, "want_offset": []int{3, 4}})
	r.Sample(map[string]any{"delimiter": "AWK", "nth": "-1", "query": "'b'", "line": "b é b", "want_match": true, "want_offset": []int{4, 5}})
	for i, c := range cases {
		if !r.Mine(i) {
			continue
		}
		if r.ExpiredNow() {
			return
		}
		c10CheckNth(r, c, lines, "")
	}
}

// ---------------------------------------------------------------- layer (d): templates and placeholders use the same selection

type c10Tmpl struct {
	kind  string // "list" (--with-nth 1,2), "template" (--with-nth '<{1}|{2}>{n}'), "placeholder" ({rs1}, {r1})
	text  string
	parts []c10TmplPart
	flagS bool // placeholder: s flag (keep surrounding white space)
}

type c10TmplPart struct {
	lit   string
	specs []c10Spec // one placeholder = a comma list of expressions
	index bool
}

func c10ListSpecs(x string) []c10Spec {
	var out []c10Spec
	for _, e := range strings.Split(x, ",") {
		sp, ok := c10SpecByExpr(e)
		if !ok {
			panic("harness: bad expression " + e)
		}
		out = append(out, sp)
	}
	return out
}

func c10Templates() []*c10Tmpl {
	var out []*c10Tmpl
	var exprs []string
	for _, sp := range c10Specs(4) {
		exprs = append(exprs, sp.expr)
	}
	lists := []string{"1,2", "2,1", "1,3", "-1,1", "2..,1", "..2,-1", "3,3", "..,2", "1,2,3", "-2..-1,1..2"}
	all := append(append([]string{}, exprs...), lists...)
	for _, x := range all {
		out = append(out, &c10Tmpl{kind: "list", text: x, parts: []c10TmplPart{{specs: c10ListSpecs(x)}}})
		out = append(out, &c10Tmpl{kind: "template", text: "{" + x + "}", parts: []c10TmplPart{{specs: c10ListSpecs(x)}}})
		out = append(out, &c10Tmpl{kind: "placeholder", text: "{rs" + x + "}", flagS: true, parts: []c10TmplPart{{specs: c10ListSpecs(x)}}})
		out = append(out, &c10Tmpl{kind: "placeholder", text: "{r" + x + "}", parts: []c10TmplPart{{specs: c10ListSpecs(x)}}})
	}
	for _, e1 := range c10PairExprs {
		for _, e2 := range c10PairExprs {
			out = append(out, &c10Tmpl{kind: "template", text: "<{" + e1 + "}|{n}|{" + e2 + "}> ",
				parts: []c10TmplPart{{lit: "<"}, {specs: c10ListSpecs(e1)}, {lit: "|"}, {index: true}, {lit: "|"}, {specs: c10ListSpecs(e2)}, {lit: "> "}}})
		}
	}
	return out
}

func c10Joined(l []rune, fields []c10Span, specs []c10Spec) []rune {
	var out []rune
	for i := range specs {
		if sp, ok := c10SelSpan(fields, &specs[i]); ok {
			out = append(out, l[sp.s:sp.e]...)
		}
	}
	return out
}

const c10ItemIndex = 7

// expected outputs: with-nth text, accept-nth text
func (tm *c10Tmpl) want(dl *c10Delim, l []rune, fields []c10Span) (string, string) {
	switch tm.kind {
	case "list":
		w := c10Joined(l, fields, tm.parts[0].specs)
		return string(w), string(c10TrimRight(dl.stripDelim(w)))
	case "template":
		var w []rune
		for _, p := range tm.parts {
			switch {
			case p.index:
				w = append(w, []rune(strconv.Itoa(c10ItemIndex))...)
			case p.specs != nil:
				w = append(w, c10TrimRight(dl.stripDelim(c10Joined(l, fields, p.specs)))...)
			default:
				w = append(w, []rune(p.lit)...)
			}
		}
		return string(w), string(c10TrimRight(dl.stripDelim(w)))
	}
	w := dl.stripDelim(c10Joined(l, fields, tm.parts[0].specs))
	if !tm.flagS {
		w = c10TrimLeft(c10TrimRight(w))
	}
	return string(w), ""
}

func c10CheckTmpl(r *kit.Run, dl *c10Delim, tm *c10Tmpl, lines []string, x *util.Executor, only string) {
	det := func() map[string]any {
		return map[string]any{"delimiter": dl.String(), "kind": tm.kind, "template": tm.text}
	}
	var fn func([]Token, int32) string
	if tm.kind != "placeholder" {
		var mk func(Delimiter) func([]Token, int32) string
		var err error
		if !c10Guard(r, det, func() { mk, err = nthTransformer(tm.text) }) {
			return
		}
		if err != nil {
			d := det()
			d["err"] = err.Error()
			r.Violation("template:rejected", d)
			return
		}
		fn = mk(dl.d)
	}
	var fbuf []c10Span
	for _, ln := range lines {
		if only != "" && ln != only {
			continue
		}
		rl := []rune(ln)
		fbuf = dl.fields(rl, fbuf)
		wantWith, wantAccept := tm.want(dl, rl, fbuf)
		d2 := func() map[string]any { d := det(); d["line"] = ln; return d }
		it := &Item{text: util.ToChars([]byte(ln))}
		it.text.Index = c10ItemIndex
		if tm.kind == "placeholder" {
			var got string
			if !c10Guard(r, d2, func() {
				var tmp []string
				got, tmp = replacePlaceholder(replacePlaceholderParams{template: tm.text, delimiter: dl.d, printsep: "\n", allItems: []*Item{it, nil}, executor: x})
				removeFiles(tmp)
			}) {
				continue
			}
			r.Eval()
			if got != wantWith {
				d := d2()
				d["got"], d["want"] = got, wantWith
				r.Violation("placeholder:"+map[bool]string{true: "rs", false: "r"}[tm.flagS], d)
			} else if wantWith != "" && wantWith != ln {
				r.NT()
			}
			continue
		}
		var gotWith, gotAccept string
		if !c10Guard(r, d2, func() {
			gotWith = fn(Tokenize(ln, dl.d), c10ItemIndex)
			gotAccept = it.acceptNth(false, dl.d, fn)
		}) {
			continue
		}
		r.Evals(2)
		if gotWith != wantWith {
			d := d2()
			d["got"], d["want"] = gotWith, wantWith
			r.Violation("with-nth:"+tm.kind, d)
		} else if gotAccept != wantAccept {
			d := d2()
			d["got"], d["want"] = gotAccept, wantAccept
			r.Violation("accept-nth:"+tm.kind, d)
		} else if wantWith != "" && wantWith != ln {
			r.NT()
			if wantAccept != wantWith {
				r.Count("accept_nth_strips_trailing_delimiter")
			}
		}
	}
}

func TestVerif_C10_templates(t *testing.T) {
	r := kit.Start("C10", "templates")
	if r == nil {
		t.Skip()
	}
	defer r.Finish()
	os.Setenv("SHELL", "/bin/sh")
	x := util.NewExecutor("")
	tmpls := c10Templates()
	delims := c10AllDelims()
	if d := r.Replay(); d != nil {
		dl := c10DelimByName(c10Str(d, "delimiter"))
		for _, tm := range tmpls {
			if dl != nil && tm.kind == c10Str(d, "kind") && tm.text == c10Str(d, "template") {
				c10CheckTmpl(r, dl, tm, []string{c10Str(d, "line")}, x, c10Str(d, "line"))
			}
		}
		return
	}
	lines := c10Lines(c10FieldAlpha, r.Pick(4, 6))
	r.Param("lines", fmt.Sprint(len(lines)))
	r.Param("templates", fmt.Sprint(len(tmpls)))
	r.Sample(map[string]any{"delimiter": ":", "kind": "template", "template": "<{2}|{n}|{-1}> ", "line": "a:é :,", "with_nth": "<é|7|,> ", "accept_nth": "<é|7|,>"})
	r.Sample(map[string]any{"delimiter": "[:,]", "kind": "placeholder", "template": "{rs..2}", "line": "a,é:a", "want": "a,é"})
	idx := 0
	for _, tm := range tmpls {
		for _, dl := range delims {
			idx++
			if !r.Mine(idx) {
				continue
			}
			if r.ExpiredNow() {
				return
			}
			c10CheckTmpl(r, dl, tm, lines, x, "")
		}
	}
}

// ---------------------------------------------------------------- layer: the same through the command line
// fzf -f QUERY --nth LIST [-d DELIM] over all lines at once: the printed lines are exactly the lines the reference accepts.

func (c *c10NthCase) args() []string {
	a := []string{"--nth", c.list}
	if !c.dl.awk {
		a = append(a, "-d", c.dl.arg)
	}
	if !c.q.extended {
		a = append(a, "--no-extended")
		if c.q.kind == c10Exact {
			a = append(a, "--exact")
		}
	}
	return append(a, "-f", c.q.render())
}

func c10CheckCli(r *kit.Run, fzf string, c *c10NthCase, lines []*c10Line, input string) {
	if c.collapsed() {
		cc := *c
		cc.noNth = true
		c = &cc
		r.Count("invocations_where_the_parser_drops_nth")
	}
	want := map[string]int{}
	nwant := 0
	var fbuf, sbuf []c10Span
	for _, l := range lines {
		fold, pat := c.fold(l)
		var ex bool
		ex, _, fbuf, sbuf = c.exists(l, fold, pat, fbuf, sbuf)
		if ex != c.q.neg {
			want[l.s]++
			nwant++
		}
	}
	args := c.args()
	cmd := exec.Command(fzf, args...)
	cmd.Stdin = strings.NewReader(input)
	var stderr bytes.Buffer
	cmd.Stderr = &stderr
	out, err := cmd.Output()
	r.Eval()
	det := func() map[string]any {
		return map[string]any{"delimiter": c.dl.String(), "nth": c.list, "query": c.q.render(), "mode": c.q.String(), "args": args, "input_lines": len(lines)}
	}
	code := 0
	if ee, ok := err.(*exec.ExitError); ok {
		code = ee.ExitCode()
	} else if err != nil {
		d := det()
		d["err"] = err.Error()
		r.Violation("harness:cannot-run-fzf", d)
		return
	}
	if code != 0 && code != 1 {
		d := det()
		d["exit"], d["stderr"] = code, stderr.String()
		r.Violation("cli:exit-code", d)
		return
	}
	got := strings.Split(string(out), "\n")
	if len(got) > 0 && got[len(got)-1] == "" {
		got = got[:len(got)-1]
	}
	if (code == 0) != (nwant > 0) {
		d := det()
		d["exit"], d["want_matches"] = code, nwant
		r.Violation("cli:exit-code", d)
	}
	for _, g := range got {
		want[g]--
	}
	var missing, extra []string
	for k, v := range want {
		if v > 0 && len(missing) < 5 {
			missing = append(missing, k)
		} else if v < 0 && len(extra) < 5 {
			extra = append(extra, k)
		}
	}
	if len(missing)+len(extra) > 0 {
		sort.Strings(missing)
		sort.Strings(extra)
		d := det()
		d["not_printed_but_match"], d["printed_but_no_match"], d["printed"], d["want_printed"] = missing, extra, len(got), nwant
		r.Violation("cli:result-set:"+c.q.class(), d)
		return
	}
	if nwant > 0 && nwant < len(lines) {
		r.NT()
	}
	r.CountN("lines_printed", len(got))
}

func TestVerif_C10_cli(t *testing.T) {
	r := kit.Start("C10", "cli")
	if r == nil {
		t.Skip()
	}
	defer r.Finish()
	fzf := os.Getenv("VERIF_FZF")
	if fzf == "" {
		r.Note("VERIF_FZF not set")
		r.Cap("no fzf binary")
		return
	}
	os.Unsetenv("FZF_DEFAULT_OPTS")
	os.Unsetenv("FZF_DEFAULT_OPTS_FILE")
	os.Unsetenv("FZF_DEFAULT_COMMAND")
	cases := c10NthCases(r)
	lines := c10MkLines(c10Lines([]rune{'a', 'b', 'é', ' ', ':'}, r.Pick(4, 6))[1:]) // without the empty line
	var sb strings.Builder
	for _, l := range lines {
		sb.WriteString(l.s)
		sb.WriteByte('\n')
	}
	input := sb.String()
	r.Param("lines", fmt.Sprint(len(lines)))
	r.Param("invocations", fmt.Sprint(len(cases)))
	if d := r.Replay(); d != nil {
		for _, c := range cases {
			if c.dl.String() == c10Str(d, "delimiter") && c.list == c10Str(d, "nth") && c.q.String() == c10Str(d, "mode") {
				c10CheckCli(r, fzf, c, lines, input)
			}
		}
		return
	}
	for i, c := range cases {
		if !r.Mine(i) {
			continue
		}
		if r.ExpiredNow() {
			return
		}
		c10CheckCli(r, fzf, c, lines, input)
		if i%397 == 5 {
			r.Sample(map[string]any{"command": append([]string{"fzf"}, c.args()...), "input_lines": len(lines)})
		}
	}
}
