package fzf

// Shared plumbing of the Engine-B (controlled scheduler) harnesses. The scenario bodies run against the
// rewritten copies of eventbox.go, atomicbool.go, chunklist.go, cache.go, matcher.go and reader.go, whose
// sync / atomic / time / channel operations are scheduling points of src/util/vsched.

import (
	"fmt"
	"os"
	"runtime"
	"strconv"
	"strings"
	"time"

	"github.com/junegunn/fzf/src/algo"
	"github.com/junegunn/fzf/src/util"
	"github.com/junegunn/fzf/src/util/vsched"
	kit "github.com/junegunn/fzf/src/verifkit"
)

type schedScenario struct {
	name  string
	body  func() string
	check func(string) string // "" = fine
}

func schedBadPrefix(out string) string {
	if strings.Contains(out, "BAD") || strings.HasPrefix(out, "ERROR") {
		return out
	}
	return ""
}

func schedBound(r *kit.Run, q, t int) int {
	if v, err := strconv.Atoi(os.Getenv("VERIF_BOUND")); err == nil {
		return v
	}
	return r.Pick(q, t)
}

// schedExplore explores one scenario up to `bound` deviations on this shard and reports through the kit.
func schedExplore(r *kit.Run, sc schedScenario, bound int) {
	if d := r.Replay(); d != nil {
		var sched []int
		if raw, ok := d["schedule"].([]any); ok {
			for _, v := range raw {
				sched = append(sched, int(v.(float64)))
			}
		}
		if name, _ := d["scenario"].(string); name != "" && name != sc.name {
			return
		}
		out, err := vsched.Replay(sched, sc.body)
		if err != nil {
			out = fmt.Sprintf("ERROR:%v", err)
		}
		r.Eval()
		r.Note("replayed outcome: " + out)
		if msg := sc.check(out); msg != "" {
			r.Violation(schedClass(sc.name, msg), map[string]any{"scenario": sc.name, "schedule": sched, "outcome": out})
		}
		return
	}
	dl := time.Time{}
	if s, err := strconv.Atoi(os.Getenv("VERIF_DEADLINE_S")); err == nil && s > 0 {
		dl = time.Now().Add(time.Duration(s) * time.Second)
	}
	st := vsched.Explore(bound, sc.body, sc.check, vsched.Options{Shard: r.Shard, NShards: r.NShards, Deadline: dl, MaxExecs: 3000000})
	r.Evals(st.Execs)
	for c, n := range st.ByCost {
		r.CountN(fmt.Sprintf("%s:executions_with_%d_deviations", sc.name, c), n)
		if c > 0 {
			r.Nontrivial += int64(n)
		}
	}
	r.Transitions += st.Points
	r.CountN(sc.name+":scheduling_points", int(st.Points))
	r.CountN(sc.name+":shim_operations", int(st.Ops))
	r.CountN(sc.name+":executions_run_incl_shared", st.Ran)
	if g := int64(runtime.NumGoroutine()); g > r.Counters["max_live_goroutines_after_scenario"] {
		r.Counters["max_live_goroutines_after_scenario"] = g
	}
	if st.MaxPoints > int(r.Counters[sc.name+":max_points"]) {
		r.Counters[sc.name+":max_points"] = int64(st.MaxPoints)
	}
	for o, n := range st.Outcomes {
		key := sc.name + ": " + o
		if len(key) > 160 {
			key = key[:160]
		}
		r.Outcomes[key] += int64(n)
	}
	r.States += int64(len(st.Outcomes))
	r.Param(sc.name+":bound", strconv.Itoa(bound))
	if st.Capped != "" {
		r.Cap(sc.name + ": " + st.Capped)
	}
	if st.Execs > 0 && st.Ops == 0 {
		r.Violation("machinery:no-shim-operation-observed", map[string]any{"scenario": sc.name})
	}
	for _, b := range st.Bad {
		r.Violation(schedClass(sc.name, b.Msg), map[string]any{"scenario": sc.name, "schedule": b.Schedule, "outcome": b.Outcome, "deviations": b.Cost, "message": b.Msg})
	}
	if st.BadCount > len(st.Bad) {
		r.Note(fmt.Sprintf("%s: %d violating executions in total", sc.name, st.BadCount))
	}
	if len(r.Samples) < 4 {
		for o := range st.Outcomes {
			r.Sample(map[string]any{"scenario": sc.name, "bound": bound, "an_outcome": o})
			break
		}
	}
}

func schedClass(scenario, msg string) string {
	kind := "bad-outcome"
	switch {
	case strings.Contains(msg, "no enabled thread"):
		kind = "deadlock"
	case strings.Contains(msg, "livelock"):
		kind = "livelock"
	case strings.Contains(msg, "cannot instrument"):
		kind = "machinery:cannot-instrument"
	case strings.HasPrefix(msg, "ERROR"):
		kind = "panic"
	}
	return scenario + ":" + kind
}

// ---- builders shared by the scenarios

type schedEnv struct {
	cache *ChunkCache
	cl    *ChunkList
	eb    *util.EventBox
	pc    map[string]*Pattern
	pb    func([]rune) *Pattern
}

func schedNewEnv() *schedEnv {
	algo.Init("default")
	sortCriteria = []criterion{byScore, byLength}
	e := &schedEnv{cache: NewChunkCache(), eb: util.NewEventBox(), pc: make(map[string]*Pattern)}
	idx := int32(0)
	e.cl = NewChunkList(e.cache, func(item *Item, data []byte) bool {
		item.text = util.ToChars(data)
		item.text.Index = idx
		idx++
		return true
	})
	e.pb = func(r []rune) *Pattern {
		return BuildPattern(e.cache, e.pc, true, algo.FuzzyMatchV2, true, CaseSmart, true, true, false, true, nil, Delimiter{}, revision{}, r, nil)
	}
	return e
}

func (e *schedEnv) matcher(sort bool, partitions int) *Matcher {
	m := NewMatcher(e.cache, e.pb, sort, false, e.eb, revision{})
	m.partitions = partitions
	m.slab = make([]*util.Slab, partitions)
	return m
}

func schedMergerTexts(m *Merger) []string {
	out := make([]string, 0, m.Length())
	for i := 0; i < m.Length(); i++ {
		out = append(out, m.Get(i).item.text.ToString())
	}
	return out
}

// sequential, cache-free reference filter of the first `count` items of a snapshot
func schedRefFilter(snap []*Chunk, q string) []string {
	fp := BuildPattern(NewChunkCache(), make(map[string]*Pattern), true, algo.FuzzyMatchV2, true, CaseSmart, true, true, false, false, nil, Delimiter{}, revision{}, []rune(q), nil)
	var want []string
	for _, ch := range snap {
		for i := 0; i < ch.count; i++ {
			if res, _, _ := fp.MatchItem(&ch.items[i], false, nil); res != nil {
				want = append(want, ch.items[i].text.ToString())
			}
		}
	}
	return want
}
