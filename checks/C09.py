"""C09 - query line, cursor and selection evolve exactly as the actions prescribe.
Explicit-state BFS over action histories on the real binary (pty + --listen); every history is one real execution,
compared step by step with the reference model (engine/ptydrive/model_c09.py)."""
import itertools

import ptydrive as P
import sweep
from model_c09 import EDIT, KEYS, NAV, NAV_FIT, SEL, Model

LINES = ["a", "b", "ab", "ba", "aab", "x y", "a-b", "bb a", "b-a b"]

CFGS = [
    dict(name="multi", args=["--multi"], multi=2 ** 31 - 1, cycle=False, reverse=False, rows=14),
    dict(name="multi2+cycle", args=["--multi", "2", "--cycle"], multi=2, cycle=True, reverse=False, rows=14),
    dict(name="single", args=[], multi=0, cycle=False, reverse=False, rows=14),
    dict(name="multi+reverse+short", args=["--multi", "--layout", "reverse"], multi=2 ** 31 - 1, cycle=False, reverse=True, rows=6),
    dict(name="multi3+cycle+short", args=["--multi", "3", "--cycle"], multi=3, cycle=True, reverse=False, rows=5),
    dict(name="single+reverse-list+inline", args=["--layout", "reverse-list", "--info", "inline"], multi=0, cycle=False, reverse=True, rows=7, prompt_lines=1),
]
STARTS = [(), ("put(ab a-b)", "backward-char", "backward-char"), ("put(a)", "up", "toggle"), ("put(b)", "select-all", "last")]


def model_for(cfg):
    return Model(LINES, multi=cfg["multi"], cycle=cfg["cycle"], reverse=cfg["reverse"],
                 max_items=cfg["rows"] - cfg.get("prompt_lines", 2))


def apply_model(m, el):
    for a in split_chain(el):
        if a.startswith("key:"):
            a = KEYS[a][1]
        m.do(a)


def split_chain(el):
    if el.startswith("key:"):
        return [el]
    # '+' separates chained actions; no action argument in this alphabet contains '+'
    return el.split("+")


def run_history(job):
    ci, start, hist, final = job
    cfg = CFGS[ci]
    s = P.Session(["--no-scrollbar"] + cfg["args"], LINES, rows=cfg["rows"], cols=50)
    m = model_for(cfg)
    res = dict(evals=0, nt=0, trans=0)
    keys = []
    try:
        st, ok = s.wait_loaded(len(LINES))
        if not ok:
            res["inconclusive"] = "did not load: %r" % (st,)
            return res
        for el in list(start) + list(hist):
            if el.startswith("key:"):
                s.keys(KEYS[el][0])
            else:
                s.post(el)
            apply_model(m, el)
            want = m.obs()

            def agree(x, want=want):
                return (x["query"] == want["query"] and x["position"] == want["position"] and
                        (x["current"] or {}).get("text") == want["current"] and
                        [y["text"] for y in x["selected"]] == want["selected"] and
                        [y["text"] for y in x["matches"]] == want["matches"])
            x, ok = s.wait_state(agree, deadline=10.0)
            res["evals"] += 1
            res["trans"] += 1
            if not ok:
                got = None if x is None else {"query": x["query"], "position": x["position"], "current": (x["current"] or {}).get("text"),
                                              "selected": [y["text"] for y in x["selected"]], "matches": [y["text"] for y in x["matches"]]}
                res["violation"] = ("state-after:" + action_class(el), {"config": cfg["name"], "start": start, "history": hist, "at": el,
                                                                        "model": want, "fzf": got, "alive": s.alive()})
                return res
            s.settle_screen(0.03)
            cx_seen = s.screen.x - 2
            if cx_seen != want["cx"]:
                # the screen may lag behind the state probe: wait for it
                for _ in range(100):
                    s.pump(0.05)
                    cx_seen = s.screen.x - 2
                    if cx_seen == want["cx"]:
                        break
            if cx_seen != want["cx"]:
                res["violation"] = ("text-cursor-after:" + action_class(el), {"config": cfg["name"], "start": start, "history": hist, "at": el,
                                                                              "model_cx": want["cx"], "screen_cx": cx_seen, "query": want["query"]})
                return res
            keys.append(m.key())
        if hist:
            res["nt"] = 1
        res["outcome"] = repr(m.key())
        res["states"] = 0
        if final:
            want = m.obs()
            s.post("accept")
            code = s.wait_exit(10.0)
            out = s.stdout.decode("utf-8", "replace").split("\n")[:-1]
            exp = want["selected"] if want["selected"] else ([want["current"]] if want["current"] is not None else [])
            expcode = 0 if exp else 1
            res["evals"] += 1
            if out != exp or code != expcode:
                res["violation"] = ("accept-output", {"config": cfg["name"], "start": start, "history": hist, "model": exp, "stdout": out, "exit": code, "want_exit": expcode})
        res["final_key"] = m.key()
        return res
    finally:
        s.close()


def action_class(el):
    a = split_chain(el)[-1]
    if a.startswith("key:"):
        return "key"
    return a.split("(")[0]


def run(c, replay):
    fzf = c.build_fzf()
    P.set_fzf(fzf, c.work + "/pty")
    c.assumptions += ["the match list for a query is taken from a real `fzf --filter` run (C08 ties interactive results to it)",
                      "state deduplication key = (query, text cursor, kill buffer, list cursor, selection order): the model's complete state",
                      "each action is applied when the previous one has been absorbed (eventual agreement, 10 s deadline, 5x confirmation)"]
    if replay:
        import json
        d = json.load(open(replay))["detail"]
        job = tuple(d["job"]) if "job" in d else None
        job = (job[0], tuple(job[1]), tuple(job[2]), job[3])
        sweep.run_jobs(c, "replay", run_history, [job], rule="replay of one history", deadline_s=120, confirm=1)
        return
    alpha = EDIT + NAV + SEL
    chains = ["%s+%s" % (a, b) for a in EDIT for b in EDIT]
    keyel = sorted(KEYS)
    depth = c.pick(2, 3)
    c.bounds = dict(configurations=len(CFGS), start_states=len(STARTS), alphabet=len(alpha), depth=depth,
                    chains="all two-action chains of the %d editing actions" % len(EDIT), raw_keys=len(keyel))
    # ---- layer 1: BFS over the flat alphabet with state deduplication, per configuration, from the initial state
    budget = c.pick(150, 1500)
    import time
    t0 = time.time()
    ncfg = c.pick(3, len(CFGS))
    frontier = {ci: {(): None} for ci in range(ncfg)}  # history -> model key
    seen = {ci: set() for ci in range(ncfg)}
    total_states = 0
    Lsum = None
    def alpha_for(ci):
        # offset-up / offset-down are modelled only where every result fits in the window (the view cannot scroll)
        return alpha + (NAV_FIT if CFGS[ci]["rows"] - CFGS[ci].get("prompt_lines", 2) >= len(LINES) else [])
    for d in range(1, depth + 1):
        jobs = []
        for ci in range(ncfg):
            for h in frontier[ci]:
                for a in alpha_for(ci):
                    jobs.append((ci, (), tuple(h) + (a,), d == depth or d == 1))
        left = budget - (time.time() - t0)
        if left < 20:
            break
        L = sweep.run_jobs(c, "bfs-depth-%d" % d, run_history, jobs, deadline_s=left,
                           rule="BFS level %d: every frontier history (one per distinct model state) extended by every action of the %d-action alphabet, "
                                "%d configurations; non-trivial = histories; each step compared with the model via GET / and the emulator's cursor" % (d, len(alpha), ncfg))
        # next frontier: one representative history per new model state
        nxt = {ci: {} for ci in range(ncfg)}
        for ci in range(ncfg):
            cfg = CFGS[ci]
            for h in frontier[ci]:
                for a in alpha_for(ci):
                    m = model_for(cfg)
                    for el in tuple(h) + (a,):
                        apply_model(m, el)
                    k = m.key()
                    if k not in seen[ci]:
                        seen[ci].add(k)
                        nxt[ci][tuple(h) + (a,)] = k
        frontier = nxt
        L.states = sum(len(nxt[ci]) for ci in range(ncfg))
        total_states += L.states
        if L.vclasses:
            return
    # ---- layer 2: two-action chains of the editing actions (change detection is per event) from non-initial states
    jobs = [(ci, st, (ch,), False) for ci in (0, 2) for st in STARTS[:c.pick(2, 4)] for ch in chains]
    sweep.run_jobs(c, "edit-chains", run_history, jobs, deadline_s=c.pick(60, 400),
                   rule="every two-action chain of editing actions posted as ONE event from %d start states" % c.pick(2, 4))
    # ---- layer 2b: the kill buffer is shared state between kill actions, edits and yank: every  K E{0..2} Y{1..2}  chain
    kills = ["kill-line", "unix-line-discard", "unix-word-rubout", "backward-kill-word", "kill-word"]
    edits = ["backward-char", "forward-char", "beginning-of-line", "end-of-line", "put(x)", "backward-delete-char", "delete-char"]
    fam = []
    for k in kills:
        for n in (0, 1, 2):
            for es in itertools.product(edits, repeat=n):
                for y in (1, 2):
                    fam.append("+".join((k,) + es + ("yank",) * y))
    jobs = [(ci, st, (ch,), False) for ci in (0,) for st in STARTS[1:2] + [("put(ab a-b)", "backward-word")] for ch in fam]
    sweep.run_jobs(c, "kill-edit-yank", run_history, jobs, deadline_s=c.pick(90, 400),
                   rule="every chain  kill-action, 0-2 edits/moves, 1-2 yanks  (5 x (1+7+49) x 2 = 570 chains) posted as ONE event from 2 start states with the cursor inside the query")
    # ---- layer 3: raw keys (default bindings) and non-initial start states x pairs
    jobs = [(ci, st, (k,), False) for ci in range(ncfg) for st in STARTS for k in keyel]
    jobs += [(ci, st, (a, b), True) for ci in range(c.pick(2, len(CFGS))) for st in STARTS[1:] for a in c.pick(NAV + SEL, alpha) for b in c.pick(SEL + ["put(a)", "backward-delete-char"], alpha)]
    sweep.run_jobs(c, "keys+starts", run_history, jobs, deadline_s=c.pick(90, 900),
                   rule="raw key bytes on the pty mapped to their documented default actions, and action pairs from non-initial start states followed by accept (stdout = selection in order, else current line)")
