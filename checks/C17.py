"""C17 - any command line is either accepted as documented or rejected cleanly."""
import json
import os
import re
import shlex
import shutil
import subprocess
import time
from concurrent.futures import ThreadPoolExecutor

import vcheck

FILES = ["harness/fzf/c17.go"]
TESTS = {"totality": "TestVerif_C17_totality", "pairs": "TestVerif_C17_pairs", "last-wins": "TestVerif_C17_lastwins",
         "bind-names": "TestVerif_C17_bind_names", "bind-arguments": "TestVerif_C17_bind_args"}


def cli_vectors(thorough):
    src = open(os.path.join(vcheck.REPO, "src", "options.go")).read()
    a = src.index("func parseOptions(")
    body = src[a:src.index("\nfunc applyPreset(", a)]
    names = sorted(set(re.findall(r'"(--[a-z0-9-]+|-[a-zA-Z0-9]|\+[a-zA-Z0-9])"', body)) - {"--man"})
    values = ["", "0", "-1", "abc", "50%", "\u00e9", "99999999999999999999", "a:b:c", "up,", "ctrl-a:execute("]
    if thorough:
        values += ["1", "~5", "a,b", ":", "fg:1", "{1}", "'", " ", "full:", "1,2,3,4,5", "x:bottom", "host:99999", "f13", "\u754c"]
    vecs = [[n] for n in names] + [["--no-such-option"], ["-"], ["---"], ["--=x"]]
    for n in names:
        for v in values:
            vecs.append([n, v])
            if n.startswith("--"):
                vecs.append([n + "=" + v])
    return vecs


def cli_one(L, fzf, cwd, vec, via_env):
    """Run the real binary in filter mode (no terminal needed): whatever the vector, the process must end with
    status 0/1 (accepted) or 2 (rejected: exactly one non-empty line on stderr, nothing on stdout), never a crash."""
    args, env = [fzf, "-f", "x"] + vec, vcheck.goenv()
    if via_env:
        args, env = [fzf, "-f", "x"], vcheck.goenv({"FZF_DEFAULT_OPTS": " ".join(shlex.quote(w) for w in vec)})
    detail = {"args": vec, "via": "FZF_DEFAULT_OPTS" if via_env else "argv"}
    try:
        p = subprocess.run(args, cwd=cwd, env=env, stdin=subprocess.DEVNULL, stdout=subprocess.PIPE, stderr=subprocess.PIPE, timeout=30)
    except subprocess.TimeoutExpired:
        L.violation("cli:hang", detail)
        return
    err, out = p.stderr.decode(errors="replace"), p.stdout.decode(errors="replace")
    detail.update(status=p.returncode, stderr=err[-400:], stdout=out[-200:])
    L.outcomes["exit %d" % p.returncode] = L.outcomes.get("exit %d" % p.returncode, 0) + 1
    if p.returncode < 0 or "goroutine " in err or "panic:" in err or "fatal error" in err:
        L.violation("cli:crash", detail)
    elif p.returncode not in (0, 1, 2):
        L.violation("cli:unexpected-exit-status", detail)
    elif p.returncode == 2:
        L.nontrivial += 1
        if err.strip() == "":
            L.violation("totality:empty-error-message", detail)
        elif not err.endswith("\n") or err.count("\n") != 1:
            L.violation("cli:error-message-not-one-line", detail)
        elif out:
            L.violation("cli:rejected-but-printed-results", detail)


def cli_layer(c, replay=None):
    fzf = c.build_fzf()
    L = vcheck.Layer("cli", "the fzf binary in filter mode (-f x, stdin=/dev/null) on every option name alone and with a value menu, through argv and "
                            "through $FZF_DEFAULT_OPTS: exit status 0/1 or 2 with exactly one non-empty line on stderr, no stack trace; non-trivial = rejected vectors")
    t0 = time.time()
    cwd = os.path.join(c.work, "cwd", "cli")
    os.makedirs(cwd, exist_ok=True)
    if replay:
        d = json.load(open(replay))["detail"]
        cli_one(L, fzf, cwd, d["args"], d.get("via") == "FZF_DEFAULT_OPTS")
        L.evaluations = 1
    else:
        vecs = cli_vectors(c.thorough)
        jobs = [(v, False) for v in vecs] + [(v, True) for v in vecs if "\n" not in "".join(v)]
        with ThreadPoolExecutor(max_workers=vcheck.NCPU) as ex:
            list(ex.map(lambda j: cli_one(L, fzf, cwd, j[0], j[1]), jobs))
        L.evaluations = len(jobs)
        L.samples = [{"args": vecs[len(vecs) // 3], "via": "argv"}]
        L.params = {"vectors": len(jobs)}
    shutil.rmtree(cwd, ignore_errors=True)
    L.wall_s = time.time() - t0
    c.add_layer(L)


def run(c, replay):
    ov = c.harness_overlay("src", FILES)
    b = c.build_test("src", ov)
    env = {"C17_OPTIONS_GO": os.path.join(vcheck.REPO, "src", "options.go"), "GOGC": "800", "GOMAXPROCS": "2"}
    c.bounds = dict(option_vocabulary="every option literal in parseOptions of the current src/options.go",
                    values="menu of ~135 values (valid ones of every option type, empty, leading -, 0, -1, huge, non-numeric, % forms, multi-byte, bind strings)",
                    spellings="separate word, =value / glued short form, repeated, via $FZF_DEFAULT_OPTS, via $FZF_DEFAULT_OPTS_FILE",
                    pairs="all ordered pairs of accepted single-option vectors (%d per option name)" % c.pick(2, 4),
                    last_wins="every option x ordered pairs of up to %d values it accepts; --x/--no-x and -x/+x pairs" % c.pick(10, 24),
                    bind_keys=16, bind_action_lists="all names alone, all ordered pairs, triples over a 12-name core",
                    bind_argument="all strings of length <= %s over a ␠ ( ) [ ] + , : ~ | { } plus 14 longer texts, in all 17 delimiter forms, "
                                  "restricted (as documented) to arguments without the closing delimiter" % c.pick("2 (<= 3 for 6 actions)", "3"))
    c.assumptions += [
        "the action-name -> action-type table is read from the current source and trusted as data; the property is about splitting, masking and order",
        "options documented as cumulative are exempt from the last-occurrence-wins relation: --bind --color --expect --preview-window --toggle-sort --walker-root",
        "positional bookkeeping (Height.index, Tmux.index: where on the command line the option stood) is ignored in the last-wins relations and kept in the env/file relations",
        "the environment relation is checked when the environment words are an acceptable configuration on their own",
        "ParseOptions is called in-process; the package-level default border shape (changed by --style) is reset before every call, as in a fresh process",
    ]
    if replay:
        layer = json.load(open(replay)).get("layer", "totality")
        if layer == "cli":
            cli_layer(c, replay)
            return
        c.run_layer(b, TESTS[layer], layer, replay=replay, deadline_s=120, env=env)
        return
    c.run_layer(b, TESTS["totality"], "totality", deadline_s=c.pick(60, 120), env=env,
                rule="every option name x value x spelling: exactly one of (options, nil) / (nil, error with a message), no panic; non-trivial = accepted vectors")
    c.run_layer(b, TESTS["pairs"], "pairs", deadline_s=c.pick(90, 400), env=env,
                rule="ordered pairs of accepted single-option vectors: totality; parse(env=E,args=A) == parse(words(E)+A); same through the options file; "
                     "non-trivial = pairs accepted both ways with equal dumps")
    c.run_layer(b, TESTS["last-wins"], "last-wins", deadline_s=c.pick(60, 200), env=env,
                rule="per option: parse([o v1 o v2]) == parse([o v2]), = form, args over env, negations; non-trivial = accepted with equal dumps")
    c.run_layer(b, TESTS["bind-names"], "bind-names", deadline_s=c.pick(60, 200), env=env,
                rule="bind strings from the grammar (names, pairs, triples x contexts x keys): whole keymap == listed (action, argument) pairs in order")
    c.run_layer(b, TESTS["bind-arguments"], "bind-arguments", deadline_s=c.pick(120, 600), env=env,
                rule="argument-taking actions x delimiter forms x argument texts x contexts: argument preserved verbatim, neighbours intact")
    cli_layer(c)
