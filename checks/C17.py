"""C17 - any command line is either accepted as documented or rejected cleanly."""
import json
import os

import vcheck

FILES = ["harness/fzf/c17.go"]
TESTS = {"totality": "TestVerif_C17_totality", "pairs": "TestVerif_C17_pairs", "last-wins": "TestVerif_C17_lastwins",
         "bind-names": "TestVerif_C17_bind_names", "bind-arguments": "TestVerif_C17_bind_args"}


def run(c, replay):
    ov = c.harness_overlay("src", FILES)
    b = c.build_test("src", ov)
    env = {"C17_OPTIONS_GO": os.path.join(vcheck.REPO, "src", "options.go")}
    c.bounds = dict(option_vocabulary="every option literal in parseOptions of the current src/options.go",
                    values="menu of ~135 values (valid ones of every option type, empty, leading -, 0, -1, huge, non-numeric, % forms, multi-byte, bind strings)",
                    spellings="separate word, =value / glued short form, repeated, via $FZF_DEFAULT_OPTS, via $FZF_DEFAULT_OPTS_FILE",
                    pairs="all ordered pairs of accepted single-option vectors (%d per option name)" % c.pick(2, 4),
                    last_wins="every option x ordered pairs of up to %d values it accepts; --x/--no-x and -x/+x pairs" % c.pick(10, 24),
                    bind_keys=16, bind_action_lists="all names alone, all ordered pairs, triples over a 12-name core",
                    bind_argument="all strings of length <= %s over a ␠ ( ) [ ] + , : ~ | { } plus 14 longer texts, in all 17 delimiter forms, "
                                  "restricted (as documented) to arguments without the closing delimiter" % c.pick("2 (<= 3 for 6 actions)", "3"))
    c.assumptions += [
        "the action-name -> action-type table is read from the current source and trusted as data; the property is about splitting, masking and order",
        "options documented as cumulative are exempt from the last-occurrence-wins relation: --bind --color --expect --preview-window --toggle-sort --walker-root",
        "positional bookkeeping (Height.index, Tmux.index: where on the command line the option stood) is ignored in the last-wins relations and kept in the env/file relations",
        "the environment relation is checked when the environment words are an acceptable configuration on their own",
        "ParseOptions is called in-process; the package-level default border shape (changed by --style) is reset before every call, as in a fresh process",
    ]
    if replay:
        layer = json.load(open(replay)).get("layer", "totality")
        c.run_layer(b, TESTS[layer], layer, replay=replay, deadline_s=120, env=env)
        return
    c.run_layer(b, TESTS["totality"], "totality", deadline_s=c.pick(30, 120), env=env,
                rule="every option name x value x spelling: exactly one of (options, nil) / (nil, error with a message), no panic; non-trivial = accepted vectors")
    c.run_layer(b, TESTS["pairs"], "pairs", deadline_s=c.pick(40, 400), env=env,
                rule="ordered pairs of accepted single-option vectors: totality; parse(env=E,args=A) == parse(words(E)+A); same through the options file; "
                     "non-trivial = pairs accepted both ways with equal dumps")
    c.run_layer(b, TESTS["last-wins"], "last-wins", deadline_s=c.pick(30, 200), env=env,
                rule="per option: parse([o v1 o v2]) == parse([o v2]), = form, args over env, negations; non-trivial = accepted with equal dumps")
    c.run_layer(b, TESTS["bind-names"], "bind-names", deadline_s=c.pick(30, 200), env=env,
                rule="bind strings from the grammar (names, pairs, triples x contexts x keys): whole keymap == listed (action, argument) pairs in order")
    c.run_layer(b, TESTS["bind-arguments"], "bind-arguments", deadline_s=c.pick(40, 400), env=env,
                rule="argument-taking actions x delimiter forms x argument texts x contexts: argument preserved verbatim, neighbours intact")
