"""C04 - results are the matched lines, each once, in rank order (Engine A layers)."""
import json
import os
import re
import sys

sys.path.insert(0, os.path.dirname(os.path.abspath(__file__)))

FILES = ["harness/fzf/c04.go"]
SCALED_CHUNK = 2


def patched_constants(c):
    """Copy of the CURRENT src/constants.go with chunkSize scaled down; None when the line is not found."""
    import vcheck
    src = open(os.path.join(vcheck.REPO, "src/constants.go")).read()
    out, n = re.subn(r"(\bchunkSize\s+int\s*=\s*)100\b", r"\g<1>%d" % SCALED_CHUNK, src)
    if n != 1:
        return None
    p = os.path.join(c.work, "constants_scaled.go")
    with open(p, "w") as f:
        f.write(out)
    return p


def layer_short(c, b, replay=None):
    c.run_layer(b, "TestVerif_C04_short", "short", deadline_s=c.pick(150, 600), replay=replay, env={"GOMAXPROCS": "1"},
                rule="real constants: every list of <= %d lines over the 12-line pool (thorough: + its --tail 2 variant) x tiebreak lists x 4 queries x sort x tac "
                     "x distinct slicings for partitions {1,2,3,32} x every order of probing the merged list; evaluations = Matcher.scan runs, "
                     "states = snapshots, non-trivial = expected order differs from input order" % c.pick(4, 5))


def layer_scaled(c, b, replay=None):
    c.run_layer(b, "TestVerif_C04_short", "short-scaled", deadline_s=c.pick(240, 900), replay=replay, env={"GOMAXPROCS": "1"},
                rule="chunkSize scaled to %d so that short lists span 1-3 chunks: every list of <= %d lines x trimming --tail x tiebreak lists "
                     "x 4 queries x sort x tac x distinct slicings for partitions {1,2,3,32} x every order of probing" % (SCALED_CHUNK, c.pick(4, 5)))


def layer_long(c, b, replay=None):
    c.run_layer(b, "TestVerif_C04_long", "long", deadline_s=c.pick(100, 600), replay=replay,
                rule="structured lists of 0,1,99,100,101,199,200,201,250,3201,6400 lines cycling the pool x --tail variants (partial first chunk) x 86 tiebreak "
                     "lists x 4 queries x sort x tac x partitions {1,2,3,32}; probes: ascending, descending, strided, last-then-first, scattered")


def run(c, replay):
    if replay:
        replay = os.path.abspath(replay)   # workers run in their own directories
    ov = c.harness_overlay("src", FILES)
    b = c.build_test("src", ov)
    patched = patched_constants(c)
    bs = None
    if patched:
        ovs = c.harness_overlay("src", FILES, name="ov_scaled.json", replace={"src/constants.go": patched})
        bs = c.build_test("src", ovs, out="h_scaled.test")
    c.bounds = dict(pool="12 lines: ab, 'a b', xab, 'ab x', ' ab', a/b, x/ab, abab, b, aXb, ab (duplicate), 'a  b y'",
                    queries="'' (empty), ab (plain), !x (negation only), 'a b' (two terms), 'ab x' (on aXb the second match is nested strictly inside the first)",
                    tiebreak_lists="all 86 legal lists: <= 3 distinct criteria of length, chunk, pathname, begin, end (index only last)",
                    short_list_len=c.pick(4, 5), partitions=[1, 2, 3, 32],
                    long_sizes=[0, 1, 99, 100, 101, 199, 200, 201, 250, 3201, 6400],
                    tails=c.pick("0, 99, 150, 3000", "0, 1, 99, 100, 101, 150, 2999, 3000"),
                    partition_dedup="a partition count whose slicing of the snapshot (computed by the real sliceChunks) equals that of a smaller count is not run again",
                    short_layer_plan=c.pick(
                        "quick: configurations whose order cannot depend on the tiebreak list (sort off, empty or negation-only query) run with the 6 "
                        "lists of <= 1 criterion; sorted configurations with all 86; scaled layer: --tail in {0, n-1}",
                        "thorough: lists <= 4 run the full product with every trimming --tail; lists of 5 run sorted configurations with the 26 tiebreak "
                        "lists of <= 2 criteria, unsorted ones with 6, --tail in {0, n-1}"),
                    long_layer_plan="full product in both tiers",
                    scaled_chunk_size=SCALED_CHUNK if bs else "constants.go line not found: scaled layer skipped")
    c.assumptions += ["scan direction and 'positions needed' are derived from the tiebreak list the way core.go does",
                      "rank keys of begin/end/chunk/pathname are implementation-defined and taken from a single Pattern.MatchItem call; "
                      "score slot, length slot and slot order are checked against the documentation",
                      "worker scheduling inside scan is whatever the Go runtime does here (Engine B enumerates it)"]
    if replay:
        layer = json.load(open(replay)).get("layer", "short")
        if layer == "scan-schedules":
            layer_scan_schedules(c, replay)
        elif layer == "long":
            layer_long(c, b, replay)
        elif layer == "short-scaled" and bs:
            layer_scaled(c, bs, replay)
        else:
            layer_short(c, b, replay)
        return
    run_sequential(c, b, bs)
    layer_scan_schedules(c)
    import cli_layers
    cli_layers.layer_c04_cli(c)


def layer_scan_schedules(c, replay=None):
    """Matcher.scan with 2-3 partitions under every schedule (Engine B)"""
    import schedlib
    b, info = schedlib.build(c, ["harness/fzf/sched_common.go", "harness/fzf/c04b.go"], chunk_size=4, out="hs.test")
    c.bounds["scan_schedules"] = dict(deviation_bound=c.pick(2, 3), partitions=[2, 3], chunks=[2, 3], **info)
    c.run_layer(b, "TestVerif_C04_scan_schedules", "scan-schedules", deadline_s=c.pick(120, 900), replay=replay, mem_mb=8000,
                rule="real Matcher.scan with 2-3 worker partitions x 2-3 chunks x tac x 3 queries under every schedule with at most B deviations: merged order and per-item rank "
                     "keys identical to the single-partition result (distinct outcomes per scenario must be 1)")


def run_sequential(c, b, bs):
    """Engine A layers; the scheduler (B) and CLI layers are added as further functions."""
    layer_short(c, b)
    if bs:
        layer_scaled(c, bs)
    layer_long(c, b)
