"""C16 - the --listen endpoint is robust and enforces its access rules."""
FILES = ["harness/fzf/c16.go"]

LAYERS = {
    "sequences": "TestVerif_C16_sequences",
    "splits": "TestVerif_C16_splits",
    "bodies": "TestVerif_C16_bodies",
    "wire": "TestVerif_C16_wire",
}


def run(c, replay):
    ov = c.harness_overlay("src", FILES)
    b = c.build_test("src", ov)
    c.bounds = dict(
        request_tokens=19,
        tokens="GET / | GET /?limit=1&offset=1 | POST / | PUT / | Content-Length: 2 | content-length: 0 | Content-Length: 1048577 | "
               "Content-Length: x | x-api-key: <key> | X-API-KEY: <key> | x-api-key: <proper prefix> | x-api-key: <key+suffix> | "
               "x-api-key: <other case> | CRLF | up | up CRLF | bogus-action | LF | 0xFF",
        sequence_len=c.pick("4, plus every length-5 sequence that starts with GET / or POST /", 5), split_sequence_len=c.pick(3, 4), wire_pipe_len=3, wire_tcp_len=c.pick(2, 3),
        key_configured=["none", "Ky"], ends=["EOF", "read deadline fired", "connection reset"],
        bodies="40 action specs, all ordered pairs joined with + (quick: x first 24), CR/LF/space/NUL/0xFF decorations, "
               "sizes 4095..4097, 65535..65537, 1 MiB-1, 1 MiB, 1 MiB+1")
    c.assumptions += [
        "reference reading of a request: request-line CRLF *(header CRLF) CRLF body; header lines without a colon or with an "
        "unknown name are ignorable; Content-Length must be 1..1048576; a POST is complete once Content-Length body bytes arrived",
        "when several x-api-key headers disagree either verdict is accepted (no exact header at all = unauthorised; all exact = authorised)",
        "the read deadline is exercised structurally (armed before the first read, bounded) on every request; the real 10 s wait runs once, in the thorough tier",
        "split deliveries are enumerated on a scripted net.Conn (one Read per write, exactly like net.Pipe); TCP is used with one write + half-close because "
        "TCP may coalesce writes",
        "the filtering of process-executing actions for non-local listeners happens in Terminal.Loop and is not reachable in-package (end-to-end engine)",
    ]
    if replay:
        import json
        import os
        replay = os.path.abspath(replay)
        layer = json.load(open(replay)).get("layer", "sequences")
        c.run_layer(b, LAYERS.get(layer, LAYERS["sequences"]), layer, replay=replay, deadline_s=60)
        return
    c.run_layer(b, LAYERS["sequences"], "sequences", deadline_s=c.pick(60, 400),
                rule="all token sequences up to the bound x {no key, key} x {EOF, read deadline, reset}; one write; "
                     "non-trivial = the request line is accepted; states = sequences")
    c.run_layer(b, LAYERS["splits"], "splits", deadline_s=c.pick(60, 400),
                rule="all token sequences up to the bound x {every 2-write split point x {EOF, read deadline}, every truncation x {EOF, read deadline, reset}} x {no key, key}; "
                     "every pair of split points (3 writes) on 5 complete requests; transitions = split deliveries")
    c.run_layer(b, LAYERS["bodies"], "bodies", deadline_s=c.pick(60, 300),
                rule="POST of every body of the corpus with exact Content-Length x {no key, key} x {no header, exact, prefix} x "
                     "{one write, headers and body separately, body cut at every point, body byte by byte, trailing bytes after the body}; delivered []*action compared with parseKeymap(\"f1:<body>\")")
    c.run_layer(b, LAYERS["wire"], "wire", deadline_s=c.pick(60, 300),
                rule="real net.Pipe (all sequences <= 3, full close) and the real accept loop on 127.0.0.1 (one write + half-close, "
                     "abandoned connections); who may listen where; busy channel; thorough: silent client cut off by the 10 s read deadline")
    layer_get_params(c)


# ---------------------------------------------------------------------------------------------------------------------
# process level: the GET side against the REAL state dump (Terminal.dumpStatus is not reachable in-package)
def _get_job(job):
    import ptydrive as P
    paths = job
    res = dict(evals=0, nt=0)
    s = None
    try:
        for path in paths:
            if s is None:
                s = P.Session(["--multi"], ["l%d" % i for i in range(10)], rows=12, cols=40)
                x, ok = s.wait_loaded(10)
                if not ok:
                    res["inconclusive"] = "not loaded"
                    return res
                s.post("toggle+up+toggle")
            res["evals"] += 1
            try:
                st, body = s.http("GET", path=path, deadline=4.0)
            except ConnectionError as e:
                st, body = None, repr(e)
            alive = s.alive()
            if not alive or st is None:
                code = s.wait_exit(3.0) if not alive else None
                tail = (s.stderr + bytes(s.raw[-1500:])).decode("utf-8", "replace")[-600:]
                res["violation"] = ("get:no-answer-or-crash", {"path": path, "alive": alive, "exit": code, "answer": str(body)[:200], "tail": tail})
                return res
            if st == 200:
                import json as _j
                try:
                    _j.loads(body)
                    res["nt"] += 1
                except ValueError:
                    res["violation"] = ("get:state-is-not-json", {"path": path, "body": body[:200].decode("utf-8", "replace")})
                    return res
            elif st not in (400, 503):
                res["violation"] = ("get:unexpected-status", {"path": path, "status": st})
                return res
        return res
    finally:
        if s is not None:
            s.close()


def layer_get_params(c):
    import ptydrive as P
    import sweep
    fzf = c.build_fzf()
    P.set_fzf(fzf, c.work + "/pty")
    vals = ["0", "1", "2", "10", "11", "100", "2147483647", "2147483648", "4294967295", "4294967296", "9223372036854775807", "9223372036854775808",
            "9223372036854775809", "18446744073709551615", "18446744073709551616", "99999999999999999999", "-1", "x", "", "1e3", "0x10", "%31"]
    paths = ["/?limit=%s&offset=%s" % (l, o) for l in vals for o in vals] + ["/?offset=%s" % o for o in vals] + ["/?limit=%s" % l for l in vals] + \
            ["/?", "/?&", "/?limit", "/?limit=1&limit=2&offset=3&offset=4", "/?x=1", "/?offset=1&limit=", "/?limit=1;offset=1"]
    batch = 40
    jobs = [paths[i:i + batch] for i in range(0, len(paths), batch)]
    sweep.run_jobs(c, "get-parameters", _get_job, jobs, deadline_s=120,
                   rule="GET /?limit=L&offset=O on the real binary for 22 x 22 boundary values (0, 2^31, 2^63 +-1, 2^64 +-1, negative, non-numeric, empty): a well-formed answer "
                        "(200 with JSON or 400), fzf alive afterwards; evaluations = requests")
