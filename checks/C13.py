"""C13 - loading and searching run concurrently without interfering (Engine B: controlled scheduler)."""
import os
import sys

sys.path.insert(0, os.path.join(os.path.dirname(os.path.abspath(__file__)), "..", "lib"))
import schedlib

FILES = ["harness/fzf/sched_common.go", "harness/fzf/c13.go"]


def run(c, replay):
    b, info = schedlib.build(c, FILES, chunk_size=c.pick(4, 10))
    c.bounds = dict(deviation_bound={"S1": c.pick(2, 3), "S2": c.pick(2, 3), "S3": c.pick(2, 3), "S4": c.pick(4, 6), "S5": c.pick(3, 4)},
                    deviation="a preemption, or waking a sleeping poll loop while another thread can run; map-iteration order of event boxes is a free choice",
                    **info)
    c.assumptions += schedlib.ASSUMPTIONS
    layers = [("TestVerif_C13_S1", "S1-snapshot-isolation", "loader (chunkSize+2 appends) || searcher (2 x snapshot + 2-partition scan), with and without --tail"),
              ("TestVerif_C13_S2", "S2-cancellation", "scan || reqReset at every point; Matcher.Loop with a superseded request"),
              ("TestVerif_C13_S3", "S3-cache", "three consecutive 2-partition scans (a, ab, a) racing on the shared ChunkCache"),
              ("TestVerif_C13_S4", "S4-eventbox", "two producers || one consumer on an EventBox with an unwatched event"),
              ("TestVerif_C13_S5", "S5-reader-poller", "Reader.feed (2 reads) || its event poller || a consumer that snapshots on EvtReadNew/Fin")]
    if replay:
        for t, l, _ in layers:
            c.run_layer(b, t, l, replay=replay, deadline_s=120)
        return
    for t, l, what in layers:
        c.run_layer(b, t, l, deadline_s=c.pick(60, 600), mem_mb=8000,
                    rule=what + ": every schedule with at most B deviations, run to completion on the rewritten real sources; "
                         "states = distinct observed outcomes, transitions = scheduling points, non-trivial = executions with >= 1 deviation")
    rf = ["harness/fzf/c13.go", "harness/fzf/c13race.go"]
    schedlib.race_pass(c, rf, "TestVerif_C13_race", seconds=c.pick(12, 90), layer="race-pass", env={"VERIF_RACE_TAIL": "0"})
    schedlib.race_pass(c, rf, "TestVerif_C13_race", seconds=c.pick(12, 90), layer="race-pass-tail", env={"VERIF_RACE_TAIL": "250"}, tag="[--tail]")
