"""C10 - field expressions select exactly the documented fields."""
FILES = ["harness/fzf/c10.go"]

LAYERS = {
    "fields": "TestVerif_C10_fields",
    "parse": "TestVerif_C10_parse",
    "nth-match": "TestVerif_C10_nth",
    "templates": "TestVerif_C10_templates",
    "cli": "TestVerif_C10_cli",
}


def run(c, replay):
    ov = c.harness_overlay("src", FILES)
    b = c.build_test("src", ov)
    fz = {"VERIF_FZF": c.build_fzf()}
    c.bounds = dict(
        line_alphabet="a é ␠ ⇥ : ,", line_len=c.pick(6, 7),
        delimiters=["AWK default", "literal :", "literal ::", "regex [:,]", "regex :+", "regex ' +'"],
        range_expressions="every N, A..B, A.., ..B, .. with bounds in -4..4 without 0 (73 accepted forms); "
                          "comma lists: all 196 ordered pairs of a 14-expression core on lines <= %d" % c.pick(4, 5),
        parser="all strings of length <= %d over - . 1 2 0 a" % c.pick(5, 7),
        nth_match=dict(line_alphabet="a b é ␠ :", line_len=c.pick(5, 7), delimiters=5, nth_lists=12,
                       queries="fuzzy exact prefix suffix equal boundary, inverse fuzzy/exact, --no-extended fuzzy/exact x texts a b ab é"),
        cli=dict(line_len=c.pick(4, 6), invocations=2400),
        templates=dict(line_len=c.pick(4, 6), forms="--with-nth/--accept-nth list, {..} template, <{A}|{n}|{B}> template, {rsN} and {rN} placeholders"))
    c.assumptions += [
        "a line that ends in a delimiter has a trailing empty field when fzf treats the delimiter as a literal string and none when it "
        "treats it as a regular expression (read back from delimiterRegexp); both are partitions of the line, the man page states neither",
        "A..B with A < 0 < B is rejected by the parser (pinned from the implementation; the man page is silent)",
        "with --nth the last expression of the list loses its trailing delimiter and trailing white space before matching (non-AWK), "
        "the others keep theirs - as the code comment 'strip the last delimiter to allow suffix match' says",
        "the meaning of a single term on a piece of text (fuzzy/exact/prefix/suffix/equal/boundary, smart case, normalisation) is C01's reference",
        "command line: a single whole-range list (.., 1.., ..-1) and, under --no-extended, any list containing one make --nth irrelevant "
        "(options.go says so): the line is then searched as it is, nothing stripped from its end",
        "{N} placeholders are observed with the r flag (no shell quoting; quoting is C12's subject)",
    ]
    if replay:
        import json
        import os
        replay = os.path.abspath(replay)
        layer = json.load(open(replay)).get("layer", "fields")
        c.run_layer(b, LAYERS.get(layer, LAYERS["fields"]), layer, replay=replay, deadline_s=120, env=fz)
        return
    c.run_layer(b, LAYERS["fields"], "fields", deadline_s=c.pick(60, 400),
                rule="every line x delimiter: Tokenize output partitions the line, offsets are rune offsets, fields = reference fields; then every range "
                     "expression (and pair list on short lines) through ParseRange/splitNth + Transform: text and offset of the selection = reference; "
                     "non-trivial = more than one field / a selection that is a non-empty proper part of the line")
    c.run_layer(b, LAYERS["parse"], "parse", deadline_s=c.pick(30, 120),
                rule="every string: ParseRange accepts iff documented form, never panics; accepted values select the reference fields for 0..6 fields; "
                     "non-trivial = accepted")
    c.run_layer(b, LAYERS["nth-match"], "nth-match", deadline_s=c.pick(60, 400),
                rule="delimiter x --nth list x single-term query x every line: MatchItem matches iff the reference finds an occurrence inside a "
                     "searchable span; reported offsets/positions are an occurrence of the term in the FULL line (rune coordinates) inside a "
                     "selected field; non-trivial = matches in a span that does not start at offset 0; states = (delimiter, list, query) with a match")
    c.run_layer(b, LAYERS["templates"], "templates", deadline_s=c.pick(60, 400),
                rule="template x delimiter x every line: nthTransformer output (with-nth), Item.acceptNth output and raw {N} placeholder expansion "
                     "= reference selection with the documented trailing-delimiter stripping; non-trivial = output non-empty and different from the line")
    c.run_layer(b, LAYERS["cli"], "cli", deadline_s=c.pick(120, 600), env=fz,
                rule="the fzf binary: fzf --nth LIST [-d DELIM] [--no-extended [--exact]] -f QUERY fed with every line at once prints exactly the lines the "
                     "reference accepts (multiset) and exits 0/1 accordingly; one evaluation = one invocation over all lines; non-trivial = some but not all lines printed")
