"""C08 - interactive results converge to a fresh filter of the current query.
Layer (a): query-edit histories against the caches (Engine A). Layers (b) scheduler and (c) pty are added as further functions."""
import os
import sys

sys.path.insert(0, os.path.dirname(os.path.abspath(__file__)))

FILES = ["harness/fzf/c08a.go"]


def layer_a(c, b, replay=None):
    c.run_layer(b, "TestVerif_C08_histories", "cache-histories", deadline_s=c.pick(120, 900), replay=replay, env={"GOMAXPROCS": "2"},
                rule="all histories of %d events from the empty query over {type/delete one of a b A space ' ^ $ ! | at either end, clear, toggle-sort, "
                     "exclude top item, more items arrive (250 -> 300 -> 370), input ends} on one ChunkCache + patternCache + Matcher.Loop; after every "
                     "event the published list = fresh pattern on a fresh cache; evaluations = events executed, states = distinct (query, sort, item count, "
                     "final, excluded) reached, transitions = distinct state pairs, non-trivial = histories ending with a non-empty list" % c.pick(4, 5))


def layer_b(c, replay=None):
    """the request mailbox under every schedule (Engine B)"""
    import schedlib
    b, info = schedlib.build(c, ["harness/fzf/sched_common.go", "harness/fzf/c08b.go"], chunk_size=4, out="hs.test")
    c.bounds["mailbox"] = dict(deviation_bound=c.pick(2, 3), scripts="2-3 Matcher.Reset calls: cancel/retry x query a/x x same/grown snapshot x final/non-final", **info)
    c.run_layer(b, "TestVerif_C08_mailbox", "mailbox-schedules", deadline_s=c.pick(120, 1200), replay=replay, mem_mb=8000,
                rule="coordinator stub issuing 2-3 Resets || real Matcher.Loop || scan worker: every schedule with at most B deviations and both map-iteration "
                     "orders of the request box; at quiescence the last published result is the sequential result of the LAST issued request")


def run(c, replay):
    if replay:
        replay = os.path.abspath(replay)   # workers run in their own directories
    ov = c.harness_overlay("src", FILES)
    b = c.build_test("src", ov)
    c.bounds = dict(history_depth=c.pick(4, 5), symbols="a b A space ' ^ $ ! |", item_counts=[250, 300, 370],
                    input="chunk 0 sparse (results cached), chunk 1 dense (broad queries exceed queryCacheMax), partial last chunk",
                    options="extended fuzzy, smart case, default tiebreak (score, length), no --tac, no --nth",
                    not_in_this_layer="change-nth, reload (need the terminal / reader: layer c); overlapping requests (layer b)")
    c.assumptions += ["the coordinator stub issues Snapshot / Matcher.Reset exactly as the event loop in core.go does for EvtReadNew, EvtReadFin and "
                      "EvtSearchNew(changed)", "requests do not overlap in this layer: each event waits for EvtSearchFin (overlap is layer b)",
                      "histories with the same sequence of states are the same execution and are run once"]
    import json
    import c08c
    if replay:
        layer = json.load(open(replay)).get("layer", "cache-histories")
        if layer == "mailbox-schedules":
            layer_b(c, replay)
        elif layer == "end-to-end":
            c08c.layer_c(c, replay)
        else:
            layer_a(c, b, replay)
        return
    layer_a(c, b)
    layer_b(c)
    c08c.layer_c(c)
