"""C14 - the UI never crashes or hangs and always leaves terminal and system clean.
Layer robustness: window sizes from 1x1 x layout/info/border/header/preview option sets x adversarial input x a probe
script with resizes. Layer keys: every byte string up to a length over 16 input-decoder symbols. Layer exit: exit paths
x what is running at that instant (instants pinned by delays and by hook points) -> termios, DEC modes, TMPDIR, processes."""
import itertools
import os
import signal
import termios
import time

import ptydrive as P
import sweep

ADV = ["", "x" * 300, "tab\there", "한글 wide 漢字", "é combining", "ctl\x01\x02", "cr\rmid", "plain", "\x1b[31mred\x1b[m", "a" * 5000]
ADV_BYTES = "".join(l + "\n" for l in ADV).encode() + b"bad\xff\xfeutf\n" + b"\xe2\x82\n"
NADV = len(ADV) + 2
SCRIPT = ["put(a)", "up", "toggle", "down", "backward-delete-char", "toggle-preview", "toggle-header", "toggle-wrap", "page-down", "last", "first",
          "toggle-preview", "clear-screen", "put(x)", "toggle-all", "half-page-up", "change-prompt(>>> )"]


def clean_text(s):
    txt = (s.stderr + "\n".join(s.screen.text()).encode("utf-8", "replace") + bytes(s.raw[-4000:]))
    return not (b"panic:" in txt or b"goroutine " in txt or b"fatal error" in txt or b"runtime error" in txt), txt[-500:].decode("utf-8", "replace")


def robust_job(job):
    rows, cols, args = job
    s = P.Session(["--multi"] + list(args), None, rows=rows, cols=cols, stdin_data=ADV_BYTES)
    res = dict(evals=1, nt=1)
    d = {"rows": rows, "cols": cols, "args": list(args)}
    try:
        x, ok = s.wait_state(lambda x: not x["reading"], 15.0)
        if not ok:
            okc, tail = clean_text(s)
            if not s.alive():
                res["violation"] = ("robust:died-at-start", dict(d, exit=s.exit_code(), tail=tail))
            else:
                res["violation"] = ("robust:not-answering-at-start", dict(d, tail=tail))
            return res
        r, c = rows, cols
        for i, a in enumerate(SCRIPT):
            s.post(a)
            s.pump(0.005)
            if i % 3 == 2:  # resize to a neighbouring size
                r, c = max(1, rows + (1 if i % 6 == 2 else -1)), max(1, cols + (2 if i % 6 == 2 else -2))
                s.resize(r, c)
                s.pump(0.01)
            res["evals"] += 1
            if not s.alive():
                okc, tail = clean_text(s)
                res["violation"] = ("robust:died", dict(d, at=a, exit=s.exit_code(), tail=tail))
                return res
        x, ok = s.wait_state(lambda x: True, 30.0)  # liveness: the event loop answers
        if not ok:
            okc, tail = clean_text(s)
            res["violation"] = ("robust:hang", dict(d, alive=s.alive(), tail=tail))
            return res
        okc, tail = clean_text(s)
        if not okc:
            res["violation"] = ("robust:panic-text", dict(d, tail=tail))
            return res
        s.post("abort")
        code = s.wait_exit(15.0)
        time.sleep(0.02)
        s.pump(0.02)
        left = s.screen.modes - {7, 25}
        res["outcome"] = "exit%s" % code
        if code != 130:
            res["violation"] = ("robust:exit-status", dict(d, exit=code, tail=tail))
        elif left:
            res["violation"] = ("robust:modes-left-on", dict(d, modes=sorted(left)))
        elif 25 not in s.screen.modes and 1049 not in s.screen.modes and False:
            pass
        return res
    finally:
        s.close()


KEY_ALPHA = [b"\x1b", b"[", b"O", b"<", b"0", b"1", b";", b"M", b"m", b"~", b"A", b"a", b"\x7f", b"\x00", b"\xff", b"\xe2",
             b"2", b"3", b"5"]  # the last three only in the csi-tree family
KEY_N = 16


def keys_job(job):
    """a batch of byte sequences; a new session whenever fzf exited (cleanly) on the previous sequence"""
    seqs = job
    res = dict(evals=0, nt=0, counters={})
    s = None
    try:
        for seq in seqs:
            data = b"".join(KEY_ALPHA[i] for i in seq)
            if s is None:
                s = P.Session(["--multi"], ["one", "two", "three"], rows=10, cols=40)
                x, ok = s.wait_loaded(3)
                if not ok:
                    res["inconclusive"] = "not loaded"
                    return res
            s.keys(data)
            res["evals"] += 1
            t0 = time.time()
            time.sleep(0.035)  # ESCDELAY is 10 ms in the driver's environment
            s.pump(0.005)
            alive = s.alive()
            if alive:
                try:
                    x = s.get()
                except ConnectionError:
                    x = None
                if x is None and s.alive():
                    # confirm a wedge with a long deadline
                    x, ok = s.wait_state(lambda x: True, 30.0)
                    if not ok and s.alive():
                        res["violation"] = ("keys:unresponsive", {"bytes": repr(data), "batch": [list(q) for q in seqs]})
                        return res
                if s.alive():
                    continue
            code = s.wait_exit(5.0)
            okc, tail = clean_text(s)
            left = s.screen.modes - {7, 25}
            res["nt"] += 1
            res["counters"]["clean_exits"] = res["counters"].get("clean_exits", 0) + 1
            if code not in (0, 1, 130) or not okc:
                res["violation"] = ("keys:crash", {"bytes": repr(data), "exit": code, "tail": tail})
                return res
            if left:
                res["violation"] = ("keys:modes-left-on", {"bytes": repr(data), "modes": sorted(left)})
                return res
            s.close()
            s = None
        return res
    finally:
        if s is not None:
            s.close()


def mouse_job(job):
    """a batch of mouse interactions (SGR encoding): press at P1, optional drag to P2, release at P3; wheel events"""
    args, inters = job
    res = dict(evals=0, nt=0, counters={})
    s = None
    lines = ["line %d" % i for i in range(120)]
    try:
        for it in inters:
            if s is None:
                s = P.Session(["--multi"] + list(args), lines, rows=24, cols=80)
                x, ok = s.wait_loaded(len(lines))
                if not ok:
                    res["inconclusive"] = "not loaded"
                    return res
            data = b""
            for (b, x_, y_, press) in it:
                data += b"\x1b[<%d;%d;%d%s" % (b, x_, y_, b"M" if press else b"m")
            s.keys(data)
            res["evals"] += 1
            time.sleep(0.02)
            s.pump(0.005)
            if s.alive():
                try:
                    x = s.get()
                except ConnectionError:
                    x = None
                if x is None and s.alive():
                    x, ok = s.wait_state(lambda x: True, 30.0)
                    if not ok and s.alive():
                        res["violation"] = ("mouse:unresponsive", {"args": list(args), "interaction": [list(e) for e in it]})
                        return res
                if s.alive():
                    continue
            code = s.wait_exit(5.0)
            okc, tail = clean_text(s)
            left = s.screen.modes - {7, 25}
            after = s.termios_now()
            res["nt"] += 1
            if code not in (0, 1, 130) or not okc:
                res["violation"] = ("mouse:crash", {"args": list(args), "interaction": [list(e) for e in it], "exit": code, "tail": tail})
                return res
            if left or (s.termios0 is not None and after is not None and after != s.termios0):
                res["violation"] = ("mouse:terminal-not-restored", {"args": list(args), "interaction": [list(e) for e in it], "modes": sorted(left)})
                return res
            s.close()
            s = None
        return res
    finally:
        if s is not None:
            s.close()


GATE_SH = r"""#!/bin/sh
# usage: child.sh NAME [files...] ; logs, optionally reads {f} files, then waits for the gate or exits
echo "start $1 $$" >> "$C14_DIR/log"
shift
for f in "$@"; do cat "$f" > /dev/null 2>&1; done
case "$C14_CHILD" in
quick) ;;
slow) i=0; while [ ! -e "$C14_DIR/gate" ] && [ $i -lt 400 ]; do sleep 0.05; i=$((i+1)); done ;;
chatty) i=0; while [ ! -e "$C14_DIR/gate" ] && [ $i -lt 400 ]; do echo x; sleep 0.05; i=$((i+1)); done ;;
esac
"""


def tagged_alive(tag):
    out = []
    for d in os.listdir("/proc"):
        if d.isdigit():
            try:
                env = open("/proc/%s/environ" % d, "rb").read()
                if ("C14_TAG=" + tag).encode() in env:
                    st = open("/proc/%s/stat" % d).read()
                    if st[st.rfind(")") + 2] != "Z":
                        out.append((int(d), P.cmdline(int(d))))
            except OSError:
                pass
    return out


def exit_job(job):
    exit_how, running, child, instant = job
    tag = "t%d_%d" % (os.getpid(), int(time.time() * 1e6) % 10 ** 9)
    base = os.path.join(P.WORKROOT, "c14-" + tag)
    os.makedirs(base)
    script = os.path.join(base, "child.sh")
    open(script, "w").write(GATE_SH)
    os.chmod(script, 0o755)
    args = ["--multi"]
    if running.startswith("preview"):
        args += ["--preview", "%s pv {f} {+f}" % script]
    args += ["--bind", "ctrl-e:execute-silent(%s ex {+f})" % script, "--bind", "ctrl-r:reload(%s rl {f}; echo r1; echo r2)" % script,
             "--bind", "ctrl-t:transform-query(%s tq {f}; echo q)" % script, "--bind", "ctrl-x:execute(%s ef {f})" % script]
    hook = None
    if instant.startswith("hook:"):
        hook = [instant[5:]]
    suspend = instant.startswith("after-suspend-resume")
    if instant == "after-suspend-resume":
        args += ["--height", "60%"]  # the non-fullscreen renderer: Pause / Resume re-initialise the terminal modes
    s = P.Session(args, ["x y", "z"], rows=12, cols=60, env={"C14_TAG": tag, "C14_DIR": base, "C14_CHILD": child}, hook_points=hook,
                  job_control=suspend)
    res = dict(evals=1, nt=1)
    d = {"exit": exit_how, "running": running, "child": child, "instant": instant}
    try:
        before = s.termios0
        x, ok = s.wait_loaded(2)
        if not ok:
            res["inconclusive"] = "not loaded"
            return res
        if running == "execute-silent":
            s.keys(b"\x05")
        elif running == "reload":
            s.keys(b"\x12")
        elif running == "transform":
            s.keys(b"\x14")
        elif running == "execute":
            s.keys(b"\x18")
        # the instant
        if hook:
            t0 = time.time()
            while time.time() - t0 < 5 and not s.hooks.parked:
                s.pump(0.01)
        elif instant == "started":
            t0 = time.time()
            while time.time() - t0 < 5 and running != "none":
                s.pump(0.01)
                try:
                    if open(os.path.join(base, "log")).read():
                        break
                except OSError:
                    pass
        elif instant == "late":
            t0 = time.time()
            while time.time() - t0 < 0.7:
                s.pump(0.02)
        elif suspend:
            # CTRL-Z: fzf restores the terminal and stops itself; SIGCONT: it takes the terminal back
            s.keys(b"\x1a")
            # the job-control shell resumes it at once; give the stop / continue cycle time to happen, then make sure it answers
            t0 = time.time()
            while time.time() - t0 < 0.6:
                s.pump(0.02)
            x, ok = s.wait_state(lambda x: True, 10.0)
            if not ok:
                res["violation"] = ("exit:not-answering-after-resume", d)
                return res
            if s.job_stops() != 1:
                res["inconclusive"] = "the job was seen stopped %d times, not once" % s.job_stops()
                return res
            res["counters"] = {"suspend-resume-cycles": 1}
            s.settle_screen(0.05)
        waits_for_child = running in ("execute-silent", "transform", "execute") and child != "quick"
        if exit_how == "accept":
            s.keys(b"\r")
        elif exit_how == "abort":
            s.keys(b"\x03")
        elif exit_how == "sigterm":
            s.signal(signal.SIGTERM)
        elif exit_how == "sigint":
            s.signal(signal.SIGINT)
        if hook:
            time.sleep(0.05)
            s.pump(0.02)
            s.hooks.release_all()
        if waits_for_child:
            # while execute / transform runs fzf deliberately waits for the child: let it end
            time.sleep(0.2)
            open(os.path.join(base, "gate"), "w").close()
        code = s.wait_exit(25.0)
        time.sleep(0.15)
        s.pump(0.05)
        probs = []
        if code is None:
            probs.append("did-not-exit")
        else:
            after = s.termios_now()
            if before is not None and after is not None and before != after:
                probs.append("termios-not-restored")
            left = s.screen.modes - {7, 25}
            if left:
                probs.append("modes-left-on:" + ",".join(map(str, sorted(left))))
            tmp = s.leftover_tmp()
            if tmp:
                probs.append("temp-files-left")
                d["tmp"] = tmp[:4]
            kids = tagged_alive(tag)
            if kids:
                # give asynchronous kills a moment, then decide
                time.sleep(0.5)
                kids = tagged_alive(tag)
            if kids:
                probs.append("processes-left")
                d["processes"] = [c for _, c in kids][:4]
            okc, tail = clean_text(s)
            if not okc:
                probs.append("panic-text")
                d["tail"] = tail
        res["outcome"] = "%s/%s->%s" % (exit_how, running, code)
        # one class per session: report the temp-file problem (a known finding in one shape) only when it is the only one
        probs.sort(key=lambda p: p == "temp-files-left")
        if probs:
            cls = "exit:" + probs[0].split(":")[0]
            if probs[0] == "temp-files-left" and running in ("preview", "reload") and not (child == "quick" and instant == "late"):
                # D15: the command that uses the {f} files has not been reaped by fzf when it exits
                cls += ":command-with-{f}-running-at-exit"
            if probs[0] == "processes-left":
                cls += ":" + running
            d["problems"] = probs
            d["exit_status"] = code
            res["violation"] = (cls, d)
        return res
    finally:
        try:
            open(os.path.join(base, "gate"), "w").close()
        except OSError:
            pass
        for p, _ in tagged_alive(tag):
            try:
                os.kill(p, signal.SIGKILL)
            except OSError:
                pass
        s.close()
        import shutil
        shutil.rmtree(base, ignore_errors=True)


def run(c, replay):
    fzf = c.build_fzf(tags="verif")
    P.set_fzf(fzf, c.work + "/pty")
    c.assumptions += ["hang = no answer from the event loop (GET /) within 30 s, confirmed by 5 sequential re-runs",
                      "while execute / execute-silent / transform runs fzf deliberately waits for the child: for those classes the child is released after the exit request",
                      "the VT emulator tracks DEC private modes; termios is read from the pty master before start and after exit"]
    if replay:
        import json
        j = json.load(open(replay))
        job = j["detail"]["job"]
        fn = {"robustness": robust_job, "keys": keys_job, "exit": exit_job, "mouse": mouse_job}[j["layer"]]
        if j["layer"] == "robustness":
            job = (job[0], job[1], tuple(job[2]))
        elif j["layer"] == "keys":
            job = [tuple(q) for q in job]
        elif j["layer"] == "mouse":
            job = (tuple(job[0]), [tuple(tuple(e) for e in it) for it in job[1]])
        else:
            job = tuple(job)
        sweep.run_jobs(c, j["layer"], fn, [job], deadline_s=120, confirm=1)
        return
    # ---- robustness
    sizes = [(r, cc) for r in (1, 2, 3, 4, 6, 8) for cc in (1, 2, 3, 5, 8, 12, 20)] + [(12, 40), (50, 200)]
    if c.thorough:
        sizes = [(r, cc) for r in range(1, 9) for cc in range(1, 13)] + [(12, 40), (50, 200)]
    axes = []
    for lay in ["default", "reverse", "reverse-list"]:
        for info in ["default", "inline", "inline-right", "right", "hidden"]:
            for border in [(), ("--border",), ("--style", "full")]:
                for hdr in [(), ("--header", "HDR"), ("--header-lines", "2")]:
                    for pv in [(), ("--preview", "echo {}"), ("--preview", "echo {}", "--preview-window", "up"), ("--preview", "echo {}", "--preview-window", "hidden"),
                               ("--preview", "echo {}", "--preview-window", "wrap"), ("--preview", "echo {}; echo a日本語", "--preview-window", "right,3,wrap,noborder"),
                               ("--preview", "echo {}", "--preview-window", "up,2,wrap,border-none")]:
                        axes.append(("--layout", lay, "--info", info) + border + hdr + pv)
    step = c.pick(11, 1)
    jobs = [(r, cc, a) for i, a in enumerate(axes) if i % step == 0 for (r, cc) in sizes]
    if c.thorough:
        jobs = [j for k, j in enumerate(jobs) if k % 3 == 0 or j[0] <= 3 or j[1] <= 3]
    c.bounds["robustness"] = dict(sizes=len(sizes), option_sets=len([1 for i in range(len(axes)) if i % step == 0]), script=SCRIPT, input_lines=NADV)
    sweep.run_jobs(c, "robustness", robust_job, jobs, deadline_s=c.pick(150, 1800),
                   rule="window sizes from 1x1 x option sets (layout, info, border, header, preview) x adversarial input x a 17-action script with resizes to neighbouring sizes; "
                        "alive and answering after every event, no panic text, exit 130 on abort, DEC modes switched off again")
    # ---- keys
    depth = c.pick(3, 4)
    seqs = [q for d in range(1, depth + 1) for q in itertools.product(range(KEY_N), repeat=d)]
    # the decision tree of the CSI decoder is up to 7 bytes deep and tests lengths exactly: every read burst  PREFIX w  where w ranges over
    # all strings over the symbols the tree branches on (first-parameter digits 1 2 3 5, 0, ';', '~', a final letter); a burst ends after each one
    A = KEY_ALPHA.index
    csi = [A(b"1"), A(b"2"), A(b"3"), A(b"5"), A(b"0"), A(b";"), A(b"~"), A(b"A")]
    fam = [((A(b"\x1b"), A(b"[")), c.pick(4, 5)), ((A(b"\x1b"), A(b"\x1b"), A(b"[")), c.pick(3, 4)), ((A(b"\x1b"), A(b"O")), c.pick(2, 3))]
    ncsi = 0
    for pre, dmax in fam:
        for d in range(1, dmax + 1):
            for w in itertools.product(csi, repeat=d):
                q = pre + w
                if all(i < KEY_N for i in q) and len(q) <= depth:
                    continue  # already in the flat enumeration
                seqs.append(q)
                ncsi += 1
    batch = 48
    jobs = [seqs[i:i + batch] for i in range(0, len(seqs), batch)]
    c.bounds["keys"] = dict(alphabet=[repr(b) for b in KEY_ALPHA[:KEY_N]], max_len=depth, sequences=len(seqs),
                            csi_tree=dict(prefixes=["ESC [", "ESC ESC [", "ESC O"], symbols="1 2 3 5 0 ; ~ A", max_suffix=[f[1] for f in fam], sequences=ncsi))
    L = sweep.run_jobs(c, "keys", keys_job, jobs, deadline_s=c.pick(150, 1500),
                       rule="every byte string up to the length over 16 input-decoder symbols, and every burst  ESC [ w / ESC ESC [ w / ESC O w  over the 8 symbols the CSI decision tree branches on, "
                            "written to the pty as one read burst, liveness probe after each; evaluations = byte strings")
    # ---- mouse
    pts = [(x_, y_) for x_ in (1, 3, 40, 78, 79, 80) for y_ in (1, 2, 3, 12, 22, 23, 24)]
    inters = []
    for p1 in pts:
        for p3 in pts:
            if not c.thorough and (pts.index(p1) + pts.index(p3)) % 3:
                continue
            inters.append(((0, p1[0], p1[1], True), (0, p3[0], p3[1], False)))                                   # press, release elsewhere
            inters.append(((0, p1[0], p1[1], True), (32, p3[0], p3[1], True), (0, p3[0], p3[1], False)))         # press, drag, release
    for p1 in pts:
        inters.append(((64, p1[0], p1[1], True),))                                                             # wheel up / down
        inters.append(((65, p1[0], p1[1], True),))
        inters.append(((2, p1[0], p1[1], True), (2, p1[0], p1[1], False)))                                     # right click
        inters.append(((4, p1[0], p1[1], True), (4, p1[0], p1[1], False)))                                     # shift-left click
        inters.append(((0, p1[0], p1[1], True), (0, p1[0], p1[1], False), (0, p1[0], p1[1], True), (0, p1[0], p1[1], False)))  # double click
    msets = [(), ("--border",), ("--layout", "reverse", "--border"), ("--preview", "echo {}", "--border"), ("--layout", "reverse-list", "--padding", "1", "--header", "H"),
             ("--preview", "echo {}", "--preview-window", "up,border-bottom", "--margin", "1")]
    batch = 40
    jobs = [(a, inters[i:i + batch]) for a in msets for i in range(0, len(inters), batch)]
    c.bounds["mouse"] = dict(points=len(pts), interactions=len(inters), option_sets=len(msets))
    sweep.run_jobs(c, "mouse", mouse_job, jobs, deadline_s=c.pick(120, 900),
                   rule="SGR mouse interactions on a 24x80 window with a scrollbar (120 lines): press at P1 / optional drag / release at P3 over a 42-point grid that includes borders, "
                        "the scrollbar column and the rows outside the list, wheel, right / shift / double clicks x 6 option sets; evaluations = interactions")
    # ---- exit hygiene
    jobs = []
    for exit_how in ["accept", "abort", "sigterm", "sigint"]:
        for running, children in [("none", ["quick"]), ("preview", ["quick", "slow", "chatty"]), ("execute-silent", ["quick", "slow"]), ("execute", ["slow"]),
                                  ("reload", ["quick", "slow"]), ("transform", ["slow"])]:
            for child in children:
                instants = ["immediate", "started", "late"]
                if running == "preview":
                    instants += ["hook:preview:dequeued", "hook:preview:started", "hook:preview:finished"]
                if running == "reload":
                    instants += ["hook:reader:fin"]
                instants += ["hook:term:exit"] if (running, child) in (("preview", "slow"), ("none", "quick")) else []
                if (running, child) in (("none", "quick"), ("preview", "quick"), ("preview", "slow")):
                    # CTRL-Z / continue before the exit, under a minimal job-control parent; --height 60% and full screen
                    instants += ["after-suspend-resume", "after-suspend-resume:fullscreen"]
                for inst in instants:
                    if running in ("execute", "execute-silent", "transform") and exit_how in ("accept", "abort") and child != "quick":
                        continue  # keys are not read while the child owns the terminal; signals are the exit paths there
                    if running in ("execute", "execute-silent", "transform") and exit_how == "sigint" and child != "quick":
                        continue  # documented: SIGINT while executing is meant for the executing command, not for fzf
                    jobs.append((exit_how, running, child, inst))
    c.bounds["exit"] = dict(exit_paths=["accept", "abort", "SIGTERM", "SIGINT"], running=["nothing", "preview", "execute-silent", "execute", "reload", "transform"],
                            child_classes=["quick", "slow (gated)", "chatty (gated)"], instants=["immediately", "child started", "700 ms later", "held at hook points", "after CTRL-Z and continuation (--height and full screen)"], sessions=len(jobs))
    sweep.run_jobs(c, "exit", exit_job, jobs, deadline_s=c.pick(200, 1200),
                   rule="exit path x what is running x child class x instant: termios restored, DEC modes off, TMPDIR empty, no process left")
