"""C20 - the preview always catches up with the focused line.
Real binary (built with -tags verif) under a pty; the preview command is a driver-supplied gate script, so the driver
decides when each preview 'finishes'; two hook points let it hold the previewer between 'request dequeued' and
'process started'. All event sequences up to a depth x preview duration classes x hook modes."""
import itertools
import os
import signal
import time

import ptydrive as P
import sweep
from model_c09 import Model

ITEMS = ["i0 a", "i1 b", "i2 ab", "i3"]

GATE = r"""#!/bin/sh
# usage: gate.sh TAG n q plus...   ({+n} expands to one word per selected item)
tag=$1; n=$2; q=$3; shift 3; plus="$*"
set -- "$tag" "$n" "$q" "$plus"
echo "start $$ $1|$2|$3|$4" >> "$C20_DIR/log"
echo "OUT $1|$2|$3|$4"
case "$C20_MODE" in
instant) ;;
slow) while [ ! -e "$C20_DIR/gate/$2" ] && [ ! -e "$C20_DIR/gate/all" ]; do sleep 0.02; done ;;
chatty) i=0; while [ ! -e "$C20_DIR/gate/all" ] && [ ! -e "$C20_DIR/gate/$2" ]; do echo "line $i"; i=$((i+1)); sleep 0.05; done ;;
never) exec sleep 98765 ;;
esac
echo "end $$" >> "$C20_DIR/log"
"""

EVENTS = ["down", "up", "put(a)", "backward-delete-char", "toggle", "refresh-preview", "toggle-preview", "change-preview", "release", "wait600", "rel-hook"]


def previews_alive(s):
    """gate scripts (or the sleep they exec into) that are descendants of fzf"""
    out = []
    for p in P.descendants(s.pid):
        c = P.cmdline(p)
        if c.startswith("/bin/sh " + s.c20dir) or c.startswith("sh " + s.c20dir) or c == "sleep 98765":
            out.append((p, c))
    return out


def read_log(s):
    try:
        return [l for l in open(os.path.join(s.c20dir, "log")).read().split("\n") if l]
    except OSError:
        return []


def run_seq(job):
    mode, hook, seq = job[:3]
    noq = len(job) > 3 and job[3] == "noq"   # the session starts with a template that does not mention the query
    focusbind = len(job) > 3 and job[3] == "focus"  # a focus binding exists (the terminal then tracks the focused item in a second place)
    res = dict(evals=1, nt=1 if seq else 0, trans=len(seq))
    hp = None
    if hook:
        hp = [hook]
    base = os.path.join(P.WORKROOT, "c20-%d-%d" % (os.getpid(), int(time.time() * 1e6) % 10 ** 9))
    os.makedirs(os.path.join(base, "gate"))
    script = os.path.join(base, "gate.sh")
    open(script, "w").write(GATE)
    os.chmod(script, 0o755)
    cmdA = ("%s A {n} - {+n}" if noq else "%s A {n} {q} {+n}") % script
    cmdB = "%s B {n} {q} {+n}" % script
    s = P.Session(["--multi", "--no-scrollbar", "--preview-window", "right,50%", "--preview", cmdA] + (["--bind", "focus:change-header(f)"] if focusbind else []), ITEMS, rows=12, cols=70,
                  hook_points=hp, env={"C20_MODE": mode, "C20_DIR": base})
    s.c20dir = base
    m = Model(ITEMS, multi=2 ** 31 - 1)
    tag, visible = "A", True
    max_alive = 0
    superseded_while_parked = False
    try:
        st, ok = s.wait_loaded(len(ITEMS))
        if not ok:
            res["inconclusive"] = "not loaded"
            return res
        if hook:
            # the first request is parked at the hook: that is the start state of the hook modes
            t0 = time.time()
            while time.time() - t0 < 5 and not s.hooks.parked:
                s.pump(0.01)
        else:
            t0 = time.time()
            while time.time() - t0 < 5 and not read_log(s):
                s.pump(0.01)
        for ev in seq:
            if s.hooks is not None and s.hooks.parked and ev not in ("release", "wait600", "rel-hook"):
                superseded_while_parked = True
            if ev == "release":
                lg = [l for l in read_log(s) if l.startswith("start")]
                if lg:
                    n = lg[-1].split(" ", 2)[2].split("|")[1]
                    open(os.path.join(base, "gate", n), "w").close()
            elif ev == "wait600":
                t0 = time.time()
                while time.time() - t0 < 0.6:
                    s.pump(0.02)
            elif ev == "rel-hook":
                if s.hooks is not None:
                    s.hooks.release()
            elif ev == "change-preview":
                tag = "B" if tag == "A" else "A"
                s.post("change-preview(%s)" % (cmdB if tag == "B" else cmdA))
            elif ev == "toggle-preview":
                visible = not visible
                s.post("toggle-preview")
            elif ev == "refresh-preview":
                s.post("refresh-preview")
            else:
                s.post(ev)
                m.do(ev)
            want = m.obs()
            x, ok = s.wait_state(lambda x: x["query"] == want["query"] and x["position"] == want["position"] and
                                 [y["text"] for y in x["selected"]] == want["selected"], 10.0)
            if not ok:
                res["inconclusive"] = "state differs from the C09 model after %s" % ev
                return res
            a = previews_alive(s)
            max_alive = max(max_alive, len(a))
            if len(a) > 1:
                # superseded previews are killed after a grace period (500 ms): re-observe after it
                t0 = time.time()
                while time.time() - t0 < 1.5 and len(previews_alive(s)) > 1:
                    s.pump(0.05)
                a = previews_alive(s)
                if len(a) > 1:
                    res["violation"] = ("more-than-one-preview-alive", {"mode": mode, "hook": hook, "sequence": seq, "after": ev, "alive": [c for _, c in a]})
                    return res
        # quiescence: hooks released, then wait until the log and the process table are stable past fzf's grace timers
        if s.hooks is not None:
            s.hooks.release_all()
        want = m.obs()
        cur = want["current"]
        exp = None
        if cur is not None and visible:
            n = str(ITEMS.index(cur))
            plus = " ".join(str(ITEMS.index(t)) for t in want["selected"]) if want["selected"] else n
            exp = "%s|%s|%s|%s" % (tag, n, "-" if (noq and tag == "A") else want["query"], plus)
        deadline = time.time() + 12.0
        stable_since = None
        last = None
        okq = False
        while time.time() < deadline:
            s.pump(0.05)
            lg = read_log(s)
            starts = [l.split(" ", 2)[2] for l in lg if l.startswith("start")]
            alive = previews_alive(s)
            snap = (len(lg), tuple(p for p, _ in alive))
            if snap != last:
                last, stable_since = snap, time.time()
            good = (exp is None or (starts and starts[-1] == exp)) and len(alive) <= 1
            if good and time.time() - stable_since > 1.2:
                okq = True
                break
        lg = read_log(s)
        starts = [l.split(" ", 2)[2] for l in lg if l.startswith("start")]
        alive = previews_alive(s)
        res["outcome"] = "%s/%s starts=%d alive=%d" % (mode, hook or "-", len(starts), len(alive))
        detail = {"mode": mode, "hook": hook, "sequence": seq, "expected_last_start": exp, "starts": starts[-4:], "alive": [c for _, c in alive],
                  "hook_log": s.hooks.log[-6:] if s.hooks else None}
        if not okq:
            if len(alive) > 1:
                res["violation"] = ("more-than-one-preview-alive", detail)
            else:
                cls = "preview-does-not-catch-up"
                # D5: a superseding request was issued while the previewer was held between "request dequeued" and
                # "process started"; its cancel signal was dropped and the stale, still running preview blocks the new one
                # (in hook mode every dequeued request is parked until released, so a stale preview that is still running was
                # parked when it was superseded - whether or not the driver had already seen the park when it sent the event)
                if hook and len(alive) == 1 and mode in ("slow", "never", "chatty") and starts and starts[-1] != exp:
                    cls += ":cancel-lost-before-process-start"
                res["violation"] = (cls, detail)
            return res
        if exp is not None:
            scr = "\n".join(s.settle_screen(0.1))
            if ("OUT " + exp) not in scr:
                # the pane may lag: wait for it
                t0 = time.time()
                while time.time() - t0 < 5 and ("OUT " + exp) not in scr:
                    s.pump(0.1)
                    scr = "\n".join(s.screen.text())
                if ("OUT " + exp) not in scr:
                    detail["screen"] = s.screen.text()
                    res["violation"] = ("preview-pane-shows-something-else", detail)
                    return res
        if not visible and alive:
            # not demanded by the property (a hidden preview is not a superseded one); counted for the record
            res["counters"] = {"hidden_preview_still_running": 1}
        # end of session: nothing may survive
        s.post("abort")
        code = s.wait_exit(10.0)
        t0 = time.time()
        left = []
        while time.time() - t0 < 2.0:
            left = [c for p, c in [(p, P.cmdline(p)) for p in P.descendants(os.getpid())] if c.startswith("/bin/sh " + base) or c == "sleep 98765" or (base in c and "gate.sh" in c)]
            if not left:
                break
            time.sleep(0.05)
        if left:
            res["violation"] = ("preview-survives-exit:" + mode, {"mode": mode, "hook": hook, "sequence": seq, "left": left, "exit": code})
        return res
    finally:
        open(os.path.join(base, "gate", "all"), "w").close()
        s.close()
        for p in P.descendants(os.getpid()):
            c = P.cmdline(p)
            if base in c or c == "sleep 98765":
                try:
                    os.kill(p, signal.SIGKILL)
                except OSError:
                    pass
        import shutil
        shutil.rmtree(base, ignore_errors=True)


def run(c, replay):
    fzf = c.build_fzf(tags="verif")
    P.set_fzf(fzf, c.work + "/pty")
    c.assumptions += ["cursor / query / selection follow the C09 model (sessions where they do not are inconclusive here and are C09's business)",
                      "quiescence = log and process table unchanged for 1.2 s (fzf's own grace timers are 500 ms), deadline 12 s, 5x confirmation",
                      "hook modes hold the previewer between 'request dequeued' / 'process started' until the rel-hook event or the end of the sequence"]
    if replay:
        import json
        j = json.load(open(replay))["detail"]["job"]
        sweep.run_jobs(c, "replay", run_seq, [(j[0], j[1], tuple(j[2])) + tuple(j[3:])], deadline_s=120, confirm=1)
        return
    depth = c.pick(2, 3)
    seqs = [()] + [q for d in range(1, depth + 1) for q in itertools.product(EVENTS, repeat=d)]
    jobs = []
    for mode in ("instant", "slow", "chatty", "never"):
        for hook in (None, "preview:dequeued", "preview:started"):
            for q in seqs:
                if hook is None and "rel-hook" in q:
                    continue
                if hook and mode in ("instant", "chatty") and not c.thorough:
                    continue
                if len(q) == 3 and (mode in ("instant", "chatty") or hook == "preview:started"):
                    continue
                if not c.thorough and len(q) == 2 and (hook or mode in ("instant", "chatty")):
                    continue
                jobs.append((mode, hook, q))
                if hook is None and mode in ("instant", "slow") and "change-preview" in q and len(q) <= 2:
                    jobs.append((mode, hook, q, "noq"))
                if hook is None and mode in ("instant", "slow") and len(q) <= 2 and ("up" in q or "down" in q):
                    jobs.append((mode, hook, q, "focus"))
    c.bounds = dict(events=EVENTS, depth=depth, duration_classes=["instant", "slow (gated)", "chatty (incremental output, gated)", "never-ending"],
                    hook_modes=["none", "preview:dequeued held", "preview:started held"], sessions=len(jobs))
    sweep.run_jobs(c, "event-sequences", run_seq, jobs, deadline_s=c.pick(400, 3000), nworkers=16,
                   rule="every event sequence up to the depth x preview duration class x hook mode, one real session each; at quiescence the last started "
                        "preview is the one for (item under the cursor, query, selection), the pane shows its output, at most one preview process is alive "
                        "at every observation and none after exit")
