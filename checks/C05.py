"""C05 - matching is a pure function of (line, query, options)."""
import os
import sys

sys.path.insert(0, os.path.dirname(os.path.abspath(__file__)))
FILES = ["harness/algo/ref.go", "harness/algo/c05.go"]


def run(c, replay):
    ov = c.harness_overlay("src/algo", FILES)
    b = c.build_test("src/algo", ov)
    c.bounds = dict(pair_histories="all ordered pairs over the case set (quick: every 7th predecessor x every victim), triples over a 60-case core",
                    stale="4 poison patterns x {standard, small} slab", text_len=c.pick(5, 6))
    c.assumptions += ["a fresh call with a nil slab is the reference value of the function"]
    if replay:
        c.run_layer(b, "TestVerif_C05_stale_rep_pos", "stale-rep-pos", replay=replay, deadline_s=60)
        return
    c.run_layer(b, "TestVerif_C05_slab_histories", "slab-histories", deadline_s=c.pick(60, 600),
                rule="histories of 2-3 matcher calls on one shared slab (standard and a small one that some calls overflow); the last call must equal "
                     "its fresh-slab result; states = victim cases, transitions = histories executed")
    c.run_layer(b, "TestVerif_C05_slab_histories_long", "slab-histories-long", deadline_s=c.pick(60, 300),
                rule="every ordered pair of 66 long-line cases (N around 2048, the slab capacity / M, 20k-70k; 3 shapes; patterns a, ab) on one slab of the standard size: the second result "
                     "equals its result on a fresh standard slab (which algorithm runs must not depend on the slab's history)")
    c.run_layer(b, "TestVerif_C05_stale_rep_pos", "stale-rep-pos", deadline_s=c.pick(60, 600),
                rule="all texts <= bound over 7 symbols x patterns <= 3 over 5 symbols x flags x 7 matchers: poisoned slabs, bytes vs runes, positions on/off "
                     "must not change Result/positions")
    ov2 = c.harness_overlay("src", ["harness/fzf/c05b.go"], name="ov_item.json")
    b2 = c.build_test("src", ov2, out="h_item.test")
    c.run_layer(b2, "TestVerif_C05_item_histories", "item-histories", deadline_s=c.pick(90, 600), replay=replay,
                rule="every line <= 4/5 over a b space : é x every ordered pair of patterns (6 nth lists x 2 delimiters x 6 queries x revisions r0 / minor bump / major bump) that a "
                     "session can produce, applied to ONE Item: the second result (rank keys, offsets, positions) equals the result on a fresh Item; transitions = two-step histories")
    if replay:
        return
    import cli_layers
    cli_layers.layer_c05_cli(c)
