"""C03 - scores follow the documented scoring model."""
FILES = ["harness/algo/ref.go", "harness/algo/c03.go"]


def run(c, replay):
    ov = c.harness_overlay("src/algo", FILES)
    b = c.build_test("src/algo", ov)
    c.bounds = dict(text_len=c.pick(4, 5), text_alphabet="a b A 1 ␠ / - _ á Á 가 , U+3000 ٣ —", pattern_len=3, pattern_alphabet="a b A 1 á",
                    schemes=3, flags="case x normalise x direction x representation")
    c.assumptions += ["reference recurrence and alignment scorer written from the documented rules (harness/algo/ref.go)",
                      "EqualMatch / ExactMatchBoundary: only the documented ordering, positivity and independence of surroundings are demanded",
                      "longer lines are covered at the size thresholds only (no random sampling: that would be a different technique)"]
    if replay:
        c.run_layer(b, "TestVerif_C03_short", "short", replay=replay, deadline_s=60)
        return
    c.run_layer(b, "TestVerif_C03_short", "short", deadline_s=c.pick(80, 900),
                rule="all texts over a 15-symbol alphabet (one symbol per character class) up to the length bound x all patterns <= 3 x folding x direction "
                     "x representation x 3 schemes: V2 score == naive whole-line recurrence, <= best existing alignment; V1/exact/prefix/suffix == score "
                     "of the reported occurrence; non-trivial = (text, pattern) evaluations where a match exists; states = distinct texts")
    c.run_layer(b, "TestVerif_C03_long", "long", deadline_s=c.pick(60, 300),
                rule="fill^pre . core . fill^post with pre/post on and around the 2048 slab threshold, all cores <= 3-4 over 5 symbols")
    c.run_layer(b, "TestVerif_C03_boundary_order", "boundary-order", nshards=1, deadline_s=30,
                rule="boundary terms: documented ordering plain > right-underscore > left-underscore > both for every boundary character pair; equal terms: positive, function of length")
