"""Process-level (real binary, fzf --filter) layers shared by C04, C05 and C06."""
import itertools
import time

import ptydrive as P
import sweep

POOL = ["ab", "a b", "xab", "ab x", " ab", "a/b", "x/ab", "abab", "b", "aXb", "a  b y", "ba"]


def _lines(n):
    # distinct lines (the ordinal is part of the text, after a tab so that it does not disturb matching of the head)
    return ["%s\t#%d" % (POOL[i % len(POOL)], i) for i in range(n)]


def _run(args, lines, sep="\n"):
    code, out, err = P.run_filter(args, "".join(l + sep for l in lines).encode())
    return code, out.decode("utf-8", "replace").split("\n")[:-1], err


# ------------------------------------------------------------------------------------------------ C04
def c04_job(job):
    n, q, extra = job
    lines = _lines(n)
    res = dict(evals=4, nt=0)
    base = ["-f", q] + list(extra)
    c0, sorted_out, _ = _run(base, lines)
    matchset = set(sorted_out)
    if len(matchset) != len(sorted_out):
        res["violation"] = ("cli:line-printed-twice", {"n": n, "query": q, "args": base})
        return res
    if matchset:
        res["nt"] = 1
    want = [l for l in lines if l in matchset]
    for flags, exp in ((["--no-sort"], want), (["--no-sort", "--tac"], want[::-1]), (["--no-sort", "--sync"], want), (["--no-sort", "--tac", "--sync"], want[::-1])):
        c1, out, _ = _run(base + flags, lines)
        if out != exp or c1 != (0 if exp else 1):
            res["violation"] = ("cli:no-sort-order:" + "+".join(f.strip("-") for f in flags), {"n": n, "query": q, "args": base + flags, "got_head": out[:6], "want_head": exp[:6]})
            return res
    c2, sync_out, _ = _run(base + ["--sync"], lines)
    if sync_out != sorted_out:
        res["violation"] = ("cli:sync-changes-order", {"n": n, "query": q, "args": base})
        return res
    c3, tac_out, _ = _run(base + ["--tac"], lines)
    if sorted(tac_out) != sorted(sorted_out):
        res["violation"] = ("cli:tac-changes-set", {"n": n, "query": q, "args": base})
    return res


def layer_c04_cli(c):
    fzf = c.build_fzf()
    P.set_fzf(fzf, c.work + "/pty")
    sizes = [0, 1, 5, 99, 100, 101, 201, 250] + ([3201] if c.thorough else [])
    tbs = [(), ("--tiebreak=length",), ("--tiebreak=begin,index",), ("--tiebreak=end",), ("--tiebreak=chunk,length",), ("--scheme=path",), ("--tail=150",)]
    jobs = [(n, q, tb) for n in sizes for q in ("", "ab", "!x", "a b", "zzz") for tb in tbs]
    sweep.run_jobs(c, "cli", c04_job, jobs, deadline_s=c.pick(120, 600),
                   rule="fzf --filter over structured lists (0..250 / 3201 lines) x 5 queries x 7 option sets: --no-sort (streaming and --sync) keeps input order, reversed under --tac; "
                        "--sync prints the same order as the default; --tac the same set; no line twice")


# ------------------------------------------------------------------------------------------------ C05
def c05_job(job):
    pool, q, extra = job
    res = dict(evals=0, nt=0)
    c0, full, _ = _run(["-f", q] + list(extra), list(pool))
    for r in range(0, len(pool) + 1):
        for sub in itertools.combinations(range(len(pool)), r):
            sl = [pool[i] for i in sub]
            c1, out, _ = _run(["-f", q] + list(extra), sl)
            res["evals"] += 1
            exp = [l for l in full if l in sl]
            if out:
                res["nt"] += 1
            if out != exp:
                res["violation"] = ("cli:sub-list-relation", {"pool": list(pool), "sub_list": sl, "query": q, "args": list(extra), "full_result": full, "sub_result": out, "expected": exp})
                return res
    return res


def layer_c05_cli(c):
    fzf = c.build_fzf()
    P.set_fzf(fzf, c.work + "/pty")
    pools = [("ab", "a b", "xab", "b a", "a/b"), (" ab", "ab ", "abab", "aXb", "zz"), ("x/ab", "ab/x", "a_b", "AB", "áb")]
    tbs = [(), ("--tiebreak=length",), ("--tiebreak=begin",), ("--tiebreak=end",), ("--tiebreak=chunk",), ("--tiebreak=pathname",), ("--tiebreak=index",),
           ("--tiebreak=length,begin",), ("--tiebreak=chunk,end,index",), ("--scheme=path",), ("--tac",), ("--no-sort",), ("--tac", "--no-sort")]
    qs = ("ab", "a", "a b", "!x", "")
    jobs = [(p, q, tb) for p in pools for q in qs for tb in tbs]
    if not c.thorough:
        jobs = [j for k, j in enumerate(jobs) if k % 2 == 0]
    sweep.run_jobs(c, "cli-sub-lists", c05_job, jobs, deadline_s=c.pick(120, 600),
                   rule="for pools of 5 distinct lines x every one of the 32 sub-lists x tiebreak/tac/no-sort settings x 5 queries: fzf --filter on the sub-list == the full "
                        "result restricted to the sub-list, same relative order; evaluations = processes")


# ------------------------------------------------------------------------------------------------ C06
def c06_job(job):
    recs, read0, hl, tail, nosort = job
    sep = "\0" if read0 else "\n"
    data = "".join(r + sep for r in recs)
    args = ["-f", ""]
    if read0:
        args.append("--read0")
    if hl:
        args += ["--header-lines", str(hl)]
    if tail:
        args += ["--tail", str(tail)]
    if nosort:
        args.append("--no-sort")
    res = dict(evals=1, nt=1 if recs else 0)
    for unterminated in (False, True):
        d = data
        exp = list(recs)
        if unterminated:
            if not recs or recs[-1] == "":
                continue  # an empty final record cannot be left unterminated
            d = data[:-1]
        code, out, err = P.run_filter(args + ["--print0"], d.encode())
        got = out.decode("utf-8", "replace").split("\0")[:-1]
        items = exp[hl:]
        if tail:
            items = items[-tail:]
        if got != items or code != (0 if items else 1):
            res["violation"] = ("cli:records" + (":header-lines" if hl else "") + (":tail" if tail else ""),
                                {"records": list(recs), "read0": read0, "header_lines": hl, "tail": tail, "no_sort": nosort, "unterminated_last": unterminated, "got": got, "want": items, "exit": code})
            return res
    return res


def c06_index_job(job):
    n, tail, hl = job
    lines = ["r%d" % i for i in range(n)]
    args = ["--no-scrollbar"]
    if tail:
        args += ["--tail", str(tail)]
    if hl:
        args += ["--header-lines", str(hl)]
    s = P.Session(args, lines, rows=30, cols=40)
    res = dict(evals=1, nt=1)
    try:
        items = lines[hl:]
        if tail:
            items = items[-tail:]
        x, ok = s.wait_state(lambda x: not x["reading"] and x["totalCount"] == len(items), 10.0)
        if not ok:
            res["violation"] = ("interactive:item-count", {"n": n, "tail": tail, "header_lines": hl, "state": None if x is None else {"total": x["totalCount"], "reading": x["reading"]}})
            return res
        got = sorted((m["index"], m["text"]) for m in x["matches"])
        want = sorted((int(t[1:]) - hl, t) for t in items)
        if got != want:
            res["violation"] = ("interactive:item-numbering", {"n": n, "tail": tail, "header_lines": hl, "got": got[:8], "want": want[:8]})
        return res
    finally:
        s.close()


def c06_header_job(job):
    """--header-lines keeps the header records while later records (longer than the reader's buffers) stream in"""
    nhdr, biglen, rest = job
    hdrs = ["COLUMN_HEADER_%d_0123456789" % i for i in range(nhdr)]
    lines = hdrs + ["y" * biglen] + ["r%d" % i for i in range(rest)]
    s = P.Session(["--no-scrollbar", "--header-lines", str(nhdr)], lines, rows=14, cols=60)
    res = dict(evals=1, nt=1)
    try:
        x, ok = s.wait_state(lambda x: not x["reading"] and x["totalCount"] == 1 + rest, 20.0)
        if not ok:
            res["violation"] = ("interactive:item-count", {"header_lines": nhdr, "long_record": biglen, "state": None if x is None else {"total": x["totalCount"], "reading": x["reading"]}})
            return res
        s.post("clear-screen")  # draw the header again from what fzf holds NOW (it may have been drawn before the rest was read)
        time.sleep(0.05)
        scr = s.settle_screen(0.1)
        t0 = time.time()
        while time.time() - t0 < 5 and not all(any(h in r for r in scr) for h in hdrs):
            s.pump(0.1)
            scr = s.screen.text()
        missing = [h for h in hdrs if not any(h in r for r in scr)]
        if missing:
            res["violation"] = ("interactive:header-record-altered", {"header_lines": nhdr, "long_record": biglen, "missing_on_screen": missing, "screen": scr})
        return res
    finally:
        s.close()


def layer_c06_cli(c):
    fzf = c.build_fzf()
    P.set_fzf(fzf, c.work + "/pty")
    pool = ["", "a", " b ", "c\td", "é"]
    n = c.pick(3, 4)
    jobs = []
    for k in range(0, n + 1):
        for recs in itertools.product(pool[:4] if k == 4 else pool, repeat=k):
            for read0 in (False, True):
                for hl in range(0, 3):
                    for tail in (0, 1, 2, 3):
                        if k == 4 and (hl == 2 or tail == 3):
                            continue
                        for nosort in (False, True):
                            jobs.append((recs, read0, hl, tail, nosort))
    sweep.run_jobs(c, "cli-records", c06_job, jobs, deadline_s=c.pick(120, 900),
                   rule="fzf --filter '' over every stream of <= %d records from {'', a, ' b ', c<TAB>d, é} x --read0 x --header-lines 0..2 x --tail 0..3 x sorted / --no-sort (streaming) x last record terminated or not: "
                        "printed records == expected records, byte for byte" % n)
    jobs = [(nh, big, rest) for nh in (1, 2) for big in (10, 65535, 65536, 131071, 131072, 131073, 300000) for rest in (0, 2)]
    sweep.run_jobs(c, "header-records", c06_header_job, jobs, deadline_s=120,
                   rule="--header-lines 1-2, then one record of 10 .. 300000 bytes (around the 64 KiB read buffer and the 128 KiB slab), then 0-2 more: the header rows on screen still show the header records")
    jobs = [(nn, tail, hl) for nn in (1, 3, 99, 100, 101, 250) for tail in (0, 1, 2, 100, 150) for hl in (0, 2)]
    sweep.run_jobs(c, "interactive-numbering", c06_index_job, jobs, deadline_s=120,
                   rule="interactive sessions: with --tail N exactly the last N records are listed and their ordinals keep counting from the start of the stream (minus the header lines)")
