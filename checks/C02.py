"""C02 - every reported match has a genuine witness; non-match means none exists."""
FILES = ["harness/algo/ref.go", "harness/algo/c02.go"]


def run(c, replay):
    ov = c.harness_overlay("src/algo", FILES)
    b = c.build_test("src/algo", ov)
    c.bounds = dict(text_len=c.pick(4, 6), text_alphabet="a b A á Á ␠ U+3000 / _ 1 가 -", pattern_len=3,
                    matchers=7, schemes=3, flags="case x normalise x direction x representation",
                    fuzzy_variants="(positions, std slab) (no positions, nil slab) (positions, tiny slab)")
    c.assumptions += ["the normalisation table (algo.NormalizeRunes) and Go's unicode tables are trusted data",
                      "patterns satisfy the documented precondition (lower-case when case-insensitive, normalised when normalising)"]
    if replay:
        c.run_layer(b, "TestVerif_C02_short", "short", replay=replay, deadline_s=60)
        return
    c.run_layer(b, "TestVerif_C02_short", "short", deadline_s=c.pick(70, 900),
                rule="all texts over the 10-symbol alphabet up to the length bound x all admissible patterns x 4 folding modes x 2 directions "
                     "x 2 representations x 7 matchers; non-trivial = calls that reported a match (each checked for a genuine witness); "
                     "states = distinct texts")
    c.run_layer(b, "TestVerif_C02_ascii_detection", "ascii-detection", deadline_s=60,
                rule="a^p . X . b^q for p, q in 0..18 and X in {é, 한, 😀}: one non-ASCII character at every offset of the 8-byte words the ASCII check reads, all 7 matchers")
    c.run_layer(b, "TestVerif_C02_thresholds", "thresholds", deadline_s=c.pick(60, 300),
                rule="lines of length N around 2048-M, 2048, 102400/M, 65536 (+-2) x M in {1,2,3,50,1000,1001} x 6 shapes x 2 fills")
