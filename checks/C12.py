"""C12 - placeholders expand to shell words that evaluate back to the original text."""
import json
import os

FILES = ["harness/fzf/c12.go"]

LAYERS = {
    "placeholders": "TestVerif_C12_placeholders",
    "relaunch": "TestVerif_C12_relaunch",
    "fish-structural": "TestVerif_C12_fish",
}


def run(c, replay):
    ov = c.harness_overlay("src", FILES)
    b = c.build_test("src", ov)
    c.bounds = dict(
        alphabet="' \" space newline $ ` \\ * ? ; & | ( ) < > ! # ~ { } a - = % tab (26 symbols)",
        texts="all strings of length 0-3 over the alphabet (18 279), all of length 4 over the 8 most dangerous symbols "
              "' \" space newline $ ` \\ * (4 096), 44 fixed extras (UTF-8, invalid UTF-8, CR, control characters, option-like, "
              "3 000 quotes, 8 000 bytes)" + c.pick("", "; thorough adds all of length 4 over the full alphabet (456 976) and all of length 5 over the 8 most dangerous (32 768)"),
        worlds="nothing selected, 1 / 2 / 3 selected items (the text first, last, in the middle), execute-multi (forcePlus), "
               "--delimiter '=', text as query and prompt, initial command (no item), empty list (minItem)",
        templates="{} {1} {-1} {2..} {s1} {s2..} {..} {n} {f} {f1} \\{} x{}y {+} {+1} {+n} {+f} {+f2..} {+s-1} a{+}b {1..2} {2} "
                  "{q} {q:1} {q:-1} {q:2..} {q:s1} {fzf:query} {fzf:prompt} x{q}y \\{q} {q}{q} and mixed templates (63 per text)",
        shells=["/bin/sh (dash)", "/bin/bash"])
    c.assumptions += [
        "fish is not installed: the fish branch of the escaper is checked against fish's documented single-quote rule only (layer fish-structural)",
        "{r} (raw) is unquoted by definition and excluded; {fzf:action} is an action name, not input data",
        "texts contain no NUL byte (items and arguments cannot carry one)",
        "field placeholders are compared with the documented reading: AWK-style fields (blank/tab), or the --delimiter string; "
        "surrounding whitespace stripped unless the s flag is given",
        "the tmux re-launch is the real runTmux with a stand-in `tmux` on PATH that runs the generated script under env -i "
        "(a popup does not inherit the caller's environment); the paths of the proxy FIFOs are written with %q and are not input data",
    ]
    if replay:
        replay = os.path.abspath(replay)
        layer = json.load(open(replay)).get("layer", "placeholders")
        c.run_layer(b, LAYERS.get(layer, LAYERS["placeholders"]), layer, replay=replay, deadline_s=120)
        return
    c.run_layer(b, LAYERS["placeholders"], "placeholders", deadline_s=c.pick(90, 780),
                rule="every text x 63 (world, template) pairs x {dash, bash}: expansion by replacePlaceholder, evaluated by the shell, "
                     "argv compared word by word; temporary files read back by Go and by the shell (read loop); non-trivial = the text contains a "
                     "character that is special to the shell; states = batches")
    c.run_layer(b, LAYERS["relaunch"], "relaunch", deadline_s=c.pick(60, 300),
                rule="every text: escapeSingleQuote as argument and as `export V=` value through dash and bash; runTmux end to end "
                     "with a stand-in tmux: the re-launched program's argv and environment")
    c.run_layer(b, LAYERS["fish-structural"], "fish-structural", deadline_s=60,
                rule="every text x 3 ways of selecting fish: QuoteEntry decoded by fish's single-quote rule")
