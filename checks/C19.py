"""C19 - the built-in walker lists exactly the files the walker options describe."""
FILES = ["harness/fzf/c19.go"]


def run(c, replay):
    ov = c.harness_overlay("src", FILES)
    b = c.build_test("src", ov)
    c.bounds = dict(tree_nodes=c.pick(4, 5), depth=3, names=["a", ".h", "b c", "n\\nl"],
                    node_kinds=["file", "dir", "empty dir", "symlink to file", "symlink to dir", "dangling symlink", "symlink loop (-> .)"],
                    walker="all 12 legal subsets of file,dir,follow,hidden (through parseWalkerOpts)",
                    walker_skip=["(none)", "a", "a/b c", "/b c", ".h", "c,/b (near misses: must prune nothing)"],
                    roots=["cwd=tree, root '.' (all trees)", "cwd=parent, roots 'root' and 'r2' (fixed second tree a/y, z) for trees of <= %d nodes" % c.pick(3, 4)],
                    symlink_targets="file ../tf; directory ../td {.hid, .hd/x, a/y} outside the roots")
    c.assumptions += [
        "hidden governs hidden DIRECTORIES only (man page: 'include and follow hidden directories'); hidden files are listed regardless",
        "with follow, a symlink to a directory that is one of the directories on the way down to it (a loop) is listed as a directory "
        "(with dir) and not entered (fastwalk's loop rule; the property is silent on loops)",
        "a root other than '.' is itself listed as a directory entry with dir (find-like, as the code does; the property says 'under the roots' "
        "and is silent on the root itself); paths are printed as root/relative-path",
        "roots are not hidden names and not on the skip list",
        "the walk is parallel, results are compared as multisets; GOMAXPROCS=2 per worker (fastwalk still runs >= 4 goroutines)",
    ]
    env = {"GOMAXPROCS": "2", "GOGC": "400"}
    if replay:
        c.run_layer(b, "TestVerif_C19_walker", "walker", replay=replay, deadline_s=120, env=env)
        return
    c.run_layer(b, "TestVerif_C19_walker", "walker", deadline_s=c.pick(100, 780), env=env,
                rule="every tree within the bounds (states) x 12 walker values x 6 skip lists x 1-2 root forms, real Reader.readFiles vs a "
                     "reference walker on os.ReadDir/Lstat/Stat, multisets of delivered paths; non-trivial = walks with a non-empty expected list")
    c.run_layer(b, "TestVerif_C19_root_spellings", "root-spellings", nshards=1, deadline_s=60, env=env,
                rule="one directory named in 8 other ways (./x, x/, x//y, x/./y, x/sub/../y, LINK/../y through a symlinked directory, ...) x 5 walker settings x 3 skip lists: "
                     "the listing equals the listing of the canonical spelling with the printed prefix exchanged")
