"""C11 - --ansi strips escape sequences only and colours the right characters."""
FILES = ["harness/fzf/c11.go"]

LAYERS = {
    "bytes": "TestVerif_C11_bytes",
    "osc-bytes": "TestVerif_C11_osc",
    "grammar": "TestVerif_C11_grammar",
}


def run(c, replay):
    ov = c.harness_overlay("src", FILES)
    b = c.build_test("src", ov)
    c.bounds = dict(
        bytes=dict(alphabet="ESC [ ] ( m K ; : 0 1 3 8 a BS SO LF BEL \\ 0xC3 0xA9", max_len=c.pick(5, 6)),
        osc_bytes=dict(prefix="ESC ]", alphabet="0 8 ; : a SP ESC \\ BEL LF BS 0xC3", max_len_after_prefix=c.pick(6, 7)),
        grammar=dict(text_chunks="<= 3 of 'éa' ' ' 'aé ' 'é' (fixed per gap)", sequences_per_line="<= 3",
                     catalogue="61 SGR forms of every parameter class (single, 256-colour, 24-bit, colon forms, combined) + 18 other well-formed "
                               "sequences (CSI K/0K/2J/?25l/1;1H, OSC 8 open/close with BEL and ST, OSC 0/2, ESC c, ESC ( B, ESC ) B, SI, SO, x BS, é BS)",
                     histories="0, 1 or 2 earlier lines (every sequence / every ordered pair of sequences of the catalogue)",
                     three_sequence_lines="%s catalogue from 5 representative carried-over states" % c.pick("24-entry core", "full")))
    c.assumptions += [
        "the documented regular expression is the one in the comment above nextAnsiEscapeSequence (src/ansi.go), copied into the harness",
        "on arbitrary bytes (layers bytes, osc-bytes) the reference is that expression plus the leniency documented in matchOperatingSystemCommand: "
        "ESC ] 8 ; ; ESC (an OSC-8 close whose terminator lost its backslash; only when no backslash follows) is one sequence - malformed input, "
        "and the text after it is kept; on grammar-generated input the reference is the documented expression itself",
        "by the documented grammar a charset designation is parsed like a CSI (ESC [()] params final-letter): ESC ( B is one sequence, while in "
        "ESC ( 0 a the 0 is a parameter and a the final byte (one sequence), and ESC ( 0 alone is ESC ( followed by the text 0; this is the documented "
        "behaviour, so digit-final designations are not in the catalogue of well-formed sequences",
        "attributes fzf cannot represent (SGR 6, 8, 26, 28) and the line-background bookkeeping of CSI 0K are not part of the per-character observation",
        "SGR 0 / empty SGR resets colours and attributes but does not end an OSC-8 hyperlink (as terminals do)",
        "truncated 38/48 forms and empty parameters inside a list are outside the generated class (well-formed sequences only)",
    ]
    if replay:
        import json
        import os
        replay = os.path.abspath(replay)
        layer = json.load(open(replay)).get("layer", "bytes")
        c.run_layer(b, LAYERS.get(layer, LAYERS["bytes"]), layer, replay=replay, deadline_s=120)
        return
    c.run_layer(b, LAYERS["bytes"], "bytes", deadline_s=c.pick(60, 400),
                rule="every byte string: no panic, scanner result well-formed and equal to the documented regex, extractColor text (from no state and from a "
                     "carried state) = input minus the regex matches, text without ESC/BS/SO/SI unchanged, spans within the text, ordered, non-overlapping; "
                     "non-trivial = contains at least one sequence")
    c.run_layer(b, LAYERS["osc-bytes"], "osc-bytes", deadline_s=c.pick(60, 400),
                rule="ESC ] followed by every string over an OSC-oriented alphabet (the shortest complete OSC is longer than the bytes layer reaches): same checks")
    c.run_layer(b, LAYERS["grammar"], "grammar", deadline_s=c.pick(60, 500),
                rule="states = histories executed (0-2 earlier lines), transitions = lines evaluated from the carried-over state; every line: stripped text = "
                     "the text chunks, per-character (fg,bg,attr,hyperlink) = independent SGR interpreter, carried-over state = interpreter state, spans "
                     "well-formed, scanner = regex; non-trivial = at least one coloured character")
