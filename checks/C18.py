"""C18 - the query history file keeps the last N submitted queries in order."""
FILES = ["harness/fzf/c18.go"]


def run(c, replay):
    ov = c.harness_overlay("src", FILES)
    b = c.build_test("src", ov)
    c.bounds = dict(sessions_per_chain=3, steps_per_session=c.pick(4, 5),
                    steps="previous, next, edit-to-x, edit-to-empty, edit-back-to-the-stored-text (thorough: + edit-to-a)",
                    session_end="abort (nothing submitted), accept current input, accept '', accept a, accept b, accept 'a b'",
                    history_size=c.pick("1 2 3", "1 2 3 4"),
                    initial_files=c.pick("missing, empty, 'a', 'a\\n', 'a\\nb\\n', 'a\\nb\\nc\\nd\\n', '\\n', 'a\\n\\nb\\n'",
                                         "quick set + 'a\\nb', '\\n\\na\\n', 'a\\nb\\nc\\nd\\ne\\n'"),
                    dedup="per session: (file bytes, History.lines, History.modified, History.cursor, input, model state); per chain: file bytes at session start (explored at the smallest session depth)")
    c.assumptions += [
        "sessions use the History exactly as terminal.go does: prev-history/next-history = override(input) then previous()/next(); "
        "exit with code <= 1 = append(input); abort = nothing",
        "the entries of a pre-existing file are its lines after stripping leading/trailing newlines (interior blank lines are empty "
        "entries); the property is silent on blank lines in files fzf did not write",
        "a pre-existing file longer than the limit is left alone until a query is submitted (the cap is on what fzf writes)",
        "one fzf process at a time uses the file (the property's sessions are sequential)",
        "sessions communicate only through the file (NewHistory builds a fresh History; history.go has no package-level state): "
        "each distinct start file is explored once per chain and re-produced on the real code by a witness chain from the initial file",
    ]
    if replay:
        import json
        layer = json.load(open(replay)).get("layer", "sessions")
        test = {"sessions": "TestVerif_C18_sessions", "options": "TestVerif_C18_options", "navigation": "TestVerif_C18_navigation"}[layer]
        c.run_layer(b, test, layer, replay=replay, deadline_s=120)
        return
    c.run_layer(b, "TestVerif_C18_sessions", "sessions", deadline_s=c.pick(90, 420), env={"GOMAXPROCS": "2"},
                rule="BFS over chains of <= 3 sessions on a real file: states = distinct (implementation, model, budget) states, "
                     "transitions = executed steps; after every step: returned text = model, file bytes = model; at every session "
                     "start: entries reachable by navigation = entries of the file; non-trivial = open-session states with a stored entry or an edit")
    c.run_layer(b, "TestVerif_C18_options", "options", deadline_s=c.pick(30, 60),
                rule="ParseOptions with --history/--history-size in 6 orders/forms x initial files x sizes: loaded entries and cap as the model; "
                     "non-trivial = the cap actually cuts")
    c.run_layer(b, "TestVerif_C18_navigation", "navigation", deadline_s=c.pick(60, 400), env={"GOMAXPROCS": "2"},
                rule="ONE session, BFS with state deduplication up to %d steps over previous / next / edit-to-x / edit-to-empty / edit-back-to-the-stored-text on 4 files x 2 sizes: "
                     "every string returned by previous()/next() equals the model's (stored text or the pending edit of that entry), the file never changes" % c.pick(9, 12))
