"""C06 - every input record becomes exactly one item, in order, unaltered (Engine A layers)."""
import json
import os
import sys
import re
from concurrent.futures import ThreadPoolExecutor

FILES = ["harness/fzf/c06.go"]
PAIRS = [(4, 8), (3, 8), (2, 5)]     # (readerBufferSize, readerSlabSize)
SCALED_CHUNK = 4


def patched_constants(c, buf, slab, notes):
    """Patched copy of the CURRENT src/constants.go; None when the reader constants cannot be found."""
    import vcheck
    src = open(os.path.join(vcheck.REPO, "src/constants.go")).read()
    out, n1 = re.subn(r"(\breaderBufferSize\s*=\s*)[^\n]+", r"\g<1>%d" % buf, src)
    out, n2 = re.subn(r"(\breaderSlabSize\s*=\s*)[^\n]+", r"\g<1>%d" % slab, out)
    if n1 != 1 or n2 != 1:
        return None
    out2, n3 = re.subn(r"(\bchunkSize\s+int\s*=\s*)\d+\b", r"\g<1>%d" % SCALED_CHUNK, out)
    if n3 == 1:
        out = out2
    else:
        notes.append("chunkSize initialiser not found: ChunkList layer runs with the real chunk size only")
    p = os.path.join(c.work, "constants_%d_%d.go" % (buf, slab))
    with open(p, "w") as f:
        f.write(out)
    return p


def build_scaled(c, pairs, notes):
    """{(buf, slab): binary}; pairs that cannot be built are left out (never a failure of the check)."""
    import vcheck
    jobs = []
    for buf, slab in pairs:
        patched = patched_constants(c, buf, slab, notes)
        if not patched:
            notes.append("reader constants not found in src/constants.go: scaled feed layers skipped, real constants only")
            return {}
        ov = c.harness_overlay("src", FILES, name="ov_scaled_%d_%d.json" % (buf, slab), replace={"src/constants.go": patched})
        jobs.append(((buf, slab), ov))
    out = {}

    def one(job):
        key, ov = job
        try:
            return key, c.build_test("src", ov, out="h_scaled_%d_%d.test" % key)
        except vcheck.Broken as e:
            notes.append("scaled build %s failed, skipped: %s" % (key, str(e)[-300:]))
            return key, None
    with ThreadPoolExecutor(max_workers=3) as ex:
        for key, b in ex.map(one, jobs):
            if b:
                out[key] = b
    return out


def layer_feed_scaled(c, b, key, replay=None):
    c.run_layer(b, "TestVerif_C06_feed", "feed-scaled-%d-%d" % key, deadline_s=c.pick(60, 400), replay=replay,
                rule="readerBufferSize=%d readerSlabSize=%d: all streams of <= %d bytes over {a, the other delimiter, the delimiter} x both delimiters x "
                     "every cut into reads no longer than the buffer offered x <= %d interposed (0,nil) reads x end by EOF / by error; "
                     "states = streams, transitions = deliveries, non-trivial = more than one data-carrying read"
                     % (key[0], key[1], c.pick(8, 9), c.pick(1, 2)))


def layer_feed_real(c, b, replay=None):
    c.run_layer(b, "TestVerif_C06_feedreal", "feed-real", deadline_s=c.pick(60, 400), replay=replay,
                rule="real 64 KiB / 128 KiB constants: record lengths {0,1,B-2..B+1,S-1..S+1,S+B+1,200Ki} x {0,1,3,B-1,B} x terminated/unterminated x both "
                     "delimiters; default read fills the buffer, <= %d short reads from {1,2,B-1,B/2} at any read number, one (0,nil) read at any read "
                     "number; records also read back through ChunkList items" % c.pick(2, 3))


def layer_chunklist(c, b, scaled, replay=None):
    name = "chunklist-scaled" if scaled else "chunklist"
    rule = ("chunkSize=%d: every sequence of push / snapshot(tail) of <= %d operations x tail 0..%d" % (SCALED_CHUNK, 3 * SCALED_CHUNK + 2, SCALED_CHUNK + 1)
            if scaled else
            "real chunkSize: 302 pushes with <= 3 snapshots at push counts {0,1,99,100,101,200,201,302} x tail {0,1,2,99,100,101,200,201}")
    c.run_layer(b, "TestVerif_C06_chunklist", name, deadline_s=c.pick(60, 300), replay=replay,
                rule=rule + "; each snapshot checked when taken and again after all operations (immutability); transitions = operations")


def run(c, replay):
    if replay:
        replay = os.path.abspath(replay)   # workers run in their own directories
    notes = []
    ov = c.harness_overlay("src", FILES)
    if replay:
        layer = json.load(open(replay)).get("layer", "feed-real")
        m = re.match(r"feed-scaled-(\d+)-(\d+)$", layer)
        if m or layer == "chunklist-scaled":
            key = (int(m.group(1)), int(m.group(2))) if m else PAIRS[0]
            bs = build_scaled(c, [key], notes)
            if key in bs:
                if m:
                    layer_feed_scaled(c, bs[key], key, replay)
                else:
                    layer_chunklist(c, bs[key], True, replay)
                return
        b = c.build_test("src", ov)
        if layer == "chunklist":
            layer_chunklist(c, b, False, replay)
        else:
            layer_feed_real(c, b, replay)
        return
    with ThreadPoolExecutor(max_workers=2) as ex:
        fb = ex.submit(c.build_test, "src", ov)
        fs = ex.submit(build_scaled, c, PAIRS, notes)
        b, bs = fb.result(), fs.result()
    c.bounds = dict(scaled_constants=[list(k) for k in bs] or "none (fell back to the real constants)",
                    stream_len=c.pick(8, 9), empty_reads=c.pick(1, 2), delimiters=["\\n", "\\0"],
                    real_constants_deviations=c.pick(2, 3), chunklist_scaled_chunk=SCALED_CHUNK, notes=notes)
    c.assumptions += ["environment: Read returns (n>0,nil)* with a bounded number of (0,nil), then (0,EOF) or (0,err); (n>0,EOF) is excluded "
                      "on purpose (no file descriptor produces it)",
                      "scaled buffer constants exercise the same code as the real ones (textual replacement of the initialisers in constants.go)",
                      "header-lines diversion and the Run() item builder are process-level and checked by the CLI layer, not here"]
    run_sequential(c, b, bs)
    layer_reader_schedules(c)
    sys.path.insert(0, os.path.dirname(os.path.abspath(__file__)))
    import cli_layers
    cli_layers.layer_c06_cli(c)


def layer_reader_schedules(c, replay=None):
    """Reader.feed || its event poller || a snapshotting consumer under every schedule (Engine B)"""
    import schedlib
    b, info = schedlib.build(c, ["harness/fzf/sched_common.go", "harness/fzf/c13.go", "harness/fzf/c06b.go"], chunk_size=4, out="hs.test")
    c.bounds["reader_schedules"] = dict(deviation_bound=c.pick(3, 4), **info)
    c.run_layer(b, "TestVerif_C06_reader_schedules", "reader-schedules", deadline_s=c.pick(120, 900), replay=replay, mem_mb=8000,
                rule="Reader.feed over 2-3 reads || startEventPoller || consumer snapshotting on EvtReadNew/EvtReadFin, every schedule with at most B deviations: every snapshot is a "
                     "prefix of the stream, the snapshot at EvtReadFin holds every record, no deadlock")


def run_sequential(c, b, bs):
    """Engine A layers; scheduler (B) and process-level layers are added as further functions."""
    for key in PAIRS:
        if key in bs:
            layer_feed_scaled(c, bs[key], key)
    layer_feed_real(c, b)
    if bs:
        layer_chunklist(c, bs[sorted(bs)[-1] if PAIRS[0] not in bs else PAIRS[0]], True)
    layer_chunklist(c, b, False)
