"""scratch: Engine-B layers of C08/C04 (to be merged into checks/C08.py and checks/C04.py)"""
import schedlib
def run(c, replay):
    b, info = schedlib.build(c, ["harness/fzf/sched_common.go", "harness/fzf/c08b.go", "harness/fzf/c04b.go"], chunk_size=4)
    c.run_layer(b, "TestVerif_C08_mailbox", "mailbox-schedules", deadline_s=120, replay=replay)
    c.run_layer(b, "TestVerif_C04_scan_schedules", "scan-schedules", deadline_s=120, replay=replay)
