"""C01 - filtering is exact."""
FILES = ["harness/fzf/c01.go"]


def run(c, replay):
    ov = c.harness_overlay("src", FILES)
    b = c.build_test("src", ov)
    c.bounds = dict(configurations=96, line_len=c.pick(4, 5), line_alphabet="a b A á ␠ - _ (+12 fixed longer lines)",
                    term_texts="all strings of length 1-2 over a b A á ␠", term_kinds=6, negation=True,
                    multi="all AND pairs and OR pairs over a 48-term core; t1 (t2|t3), (t1|t2) t3 over a 12-term core; thorough adds 3-group AND and 3-way OR")
    c.assumptions += ["queries are generated from the grammar and rendered in the documented syntax",
                      "the normalisation table is trusted data; the property is about where it is applied"]
    if replay:
        c.run_layer(b, "TestVerif_C01_terms", "terms", replay=replay, deadline_s=120)
        return
    c.run_layer(b, "TestVerif_C01_terms", "terms", deadline_s=c.pick(60, 600),
                rule="96 configurations x 6 term kinds x negation x 30 term texts x all lines; states = (configuration, query) pairs, "
                     "non-trivial = those with at least one matching line")
    c.run_layer(b, "TestVerif_C01_multi", "multi", deadline_s=c.pick(80, 900),
                rule="AND / OR / mixed queries generated from the grammar over term cores x 14 configurations x all lines")
    c.run_layer(b, "TestVerif_C01_noext", "no-extended", deadline_s=c.pick(60, 600),
                rule="--no-extended: all query strings <= 3 over a A á ␠ ' ^ ! | $ read as ONE term x 96 configurations x all lines over 7 symbols")
    c.run_layer(b, "TestVerif_C01_cache", "cache-histories", deadline_s=c.pick(60, 600),
                rule="all ordered pairs (q1, q2) of a 62-query core on a shared ChunkCache/pattern cache over >2 full chunks; matches of q2 = reference set; "
                     "transitions = two-step cache histories")
