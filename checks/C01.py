"""C01 - filtering is exact."""
import json
import os

import ptydrive as P
import sweep

_EXPORT = {}


def cli_job(job):
    ei, driver = job
    e = _EXPORT["entries"][ei]
    lines = _EXPORT["lines"]
    args = ["--filter", e["query"]] + list(driver)
    if e["exact"]:
        args.append("--exact")
    if e["case"] == 1:
        args.append("-i")
    elif e["case"] == 2:
        args.append("+i")
    if e["literal"]:
        args.append("--literal")
    if e["v1"]:
        args.append("--algo=v1")
    if not e["forward"]:
        args.append("--tiebreak=end")
    if e["noext"]:
        args.append("--no-extended")
    code, out, err = P.run_filter(args, "".join(l + "\n" for l in lines).encode())
    got = out.decode("utf-8", "replace").split("\n")[:-1]
    want = [lines[i] for i in (e["match"] or [])]
    res = dict(evals=1, nt=1 if want else 0)
    if sorted(got) != sorted(want) or code != (0 if want else 1):
        miss = sorted(set(want) - set(got))[:5]
        extra = sorted(set(got) - set(want))[:5]
        res["violation"] = ("cli:" + ("no-extended" if e["noext"] else "extended"),
                            {"args": args, "missing": miss, "extra": extra, "exit": code, "want_count": len(want), "got_count": len(got), "stderr": err.decode("utf-8", "replace")[:200]})
    return res


def layer_cli(c, b):
    """the real binary: every configuration x core queries x the filter drivers (sorted, streaming --no-sort, --sync, --tac)"""
    L = c.run_layer(b, "TestVerif_C01_export", "cli-export", nshards=1, deadline_s=120, rule="reference sets for the CLI layer")
    exp = os.path.join(c.work, "out", "cli-export.0.json.export")
    _EXPORT.update(json.load(open(exp)))
    fzf = c.build_fzf()
    P.set_fzf(fzf, c.work + "/pty")
    drivers = [(), ("--no-sort",), ("--sync",), ("--tac",)]
    jobs = []
    for ei, e in enumerate(_EXPORT["entries"]):
        for di, d in enumerate(drivers):
            if not c.thorough and (ei + di) % 4:
                continue
            jobs.append((ei, d))
    sweep.run_jobs(c, "cli", cli_job, jobs, deadline_s=c.pick(120, 900),
                   rule="fzf --filter processes: 96 configurations (mapped to --exact / -i / +i / --literal / --algo / --tiebreak=end / --no-extended) x 70 core queries "
                        "x 4 filter drivers over %d lines (several chunks): emitted set and exit status == reference" % len(_EXPORT["lines"]))

FILES = ["harness/fzf/c01.go"]


def run(c, replay):
    ov = c.harness_overlay("src", FILES)
    b = c.build_test("src", ov)
    c.bounds = dict(configurations=96, line_len=c.pick(4, 5), line_alphabet="a b A á Á ␠ - _ (+12 fixed longer lines)",
                    term_texts="all strings of length 1-2 over a b A á ␠", term_kinds=6, negation=True,
                    multi="all AND pairs and OR pairs over a 48-term core; t1 (t2|t3), (t1|t2) t3 over a 12-term core; thorough adds 3-group AND and 3-way OR")
    c.assumptions += ["queries are generated from the grammar and rendered in the documented syntax",
                      "the normalisation table is trusted data; the property is about where it is applied"]
    if replay:
        c.run_layer(b, "TestVerif_C01_terms", "terms", replay=replay, deadline_s=120)
        return
    c.run_layer(b, "TestVerif_C01_terms", "terms", deadline_s=c.pick(60, 600),
                rule="96 configurations x 6 term kinds x negation x 30 term texts x all lines; states = (configuration, query) pairs, "
                     "non-trivial = those with at least one matching line")
    c.run_layer(b, "TestVerif_C01_multi", "multi", deadline_s=c.pick(80, 900),
                rule="AND / OR / mixed queries generated from the grammar over term cores x 14 configurations x all lines")
    c.run_layer(b, "TestVerif_C01_noext", "no-extended", deadline_s=c.pick(60, 600),
                rule="--no-extended: all query strings <= 3 over a A á ␠ ' ^ ! | $ read as ONE term x 96 configurations x all lines over 7 symbols")
    c.run_layer(b, "TestVerif_C01_cache", "cache-histories", deadline_s=c.pick(60, 600),
                rule="all ordered pairs (q1, q2) of a 62-query core on a shared ChunkCache/pattern cache over >2 full chunks; matches of q2 = reference set; "
                     "transitions = two-step cache histories")
    layer_cli(c, b)
