"""C15 - the screen shows the actual state.
Oracle 1 (differential, no hand-written expectation): after every history the emulator grid of the incrementally
updated screen equals the grid after a forced full redraw (clear-screen).
Oracle 2 (structural, against GET /): prompt row, info row, item rows (contiguous slice containing the current item,
direction by layout, truncation with the ellipsis, pointer / marker placement), header placement."""
import itertools
import re
import time

import ptydrive as P
import sweep

ITEMS = ["alpha-one", "beta two with a rather long tail that will not fit in the window", "gamma", "a b", "delta-ab", "ab", "epsilon",
         "zeta ab", "eta", "theta", "iota-a", "kappa", "lambda b", "mu"]
ACTS = ["up", "down", "toggle", "toggle+up", "put(a)", "put(b)", "backward-delete-char", "last", "first", "select-all", "deselect-all",
        "page-up", "page-down", "toggle-header", "change-header(HDR)", "toggle-wrap", "change-prompt(P> )", "toggle-sort", "RESIZE", "RELOAD"]
ITEMS2 = ["one-alpha", "two beta with a rather long tail that will not fit in the window either", "gamma2", "b a", "ab-delta", "ba", "epsilon2",
          "ab zeta", "eta2", "theta2", "a-iota", "kappa2", "b lambda", "nu"]
ELL = "··"


def configs(thorough):
    out = []
    sizes = [(10, 40), (6, 24)] + ([(12, 30)] if thorough else [])
    for lay in ["default", "reverse", "reverse-list"]:
        for size in sizes:
            for extra in [[], ["--info=inline"], ["--border"], ["--header-lines", "2"]]:
                out.append({"name": "%s %dx%d %s" % (lay, size[0], size[1], " ".join(extra)), "layout": lay, "args": ["--layout", lay] + extra, "size": size,
                            "header_lines": 2 if "--header-lines" in extra else 0, "border": "--border" in extra, "inline": "--info=inline" in extra})
    # --header-first with info styles that draw their own separator row (only used by the header-visibility family)
    for lay in ["default", "reverse"]:
        for info in ["hidden", "inline-right", "default"]:
            out.append({"name": "%s 10x40 --header-first --info=%s" % (lay, info), "layout": lay, "args": ["--layout", lay, "--header-first", "--info=" + info], "size": (10, 40),
                        "header_lines": 0, "border": False, "inline": info != "default", "header_first": True, "info": info})
    return out


def strip_border(row, border):
    if border:
        if row.startswith("│ "):
            row = row[2:]
        if row.endswith(" │"):
            row = row[:-2]
        elif row.endswith("│"):
            row = row[:-1]
    return row


def structural(cfg, rows, x, q, prompt, header_on, header_text, wrap, all_items=None):
    all_items = all_items or ITEMS
    """returns a list of problems ([] = fine)"""
    probs = []
    body = [strip_border(r, cfg["border"]) for r in rows]
    if cfg["border"]:
        body = body[1:-1]
    matches = [m["text"] for m in x["matches"]]
    sel = [m["text"] for m in x["selected"]]
    cur = (x["current"] or {}).get("text")
    # prompt row
    prow = [i for i, r in enumerate(body) if r.startswith((prompt + q).rstrip())]
    if len(prow) != 1:
        probs.append("prompt-row: %d rows start with the prompt and the query" % len(prow))
    # info
    info = "%d/%d" % (x["matchCount"], x["totalCount"])
    irow = [i for i, r in enumerate(body) if re.search(r"(^|[ <])%s( |$)" % re.escape(info), r)]
    if cfg.get("info") == "hidden":
        irow = []
    elif not irow:
        probs.append("info-row: %s not shown" % info)
    elif sel and not any("(%d)" % len(sel) in body[i] for i in irow):
        probs.append("info-row: selected count (%d) not shown" % len(sel))
    if wrap:
        return probs
    # item rows
    found = []  # (row index, match index, pointer, marker, text)
    for i, r in enumerate(body):
        if i in prow or len(r) < 3:
            continue
        ptr, mk, text = r[0], r[1], r[2:].rstrip()
        if ptr not in "▌ " or mk not in "┃ ":
            continue
        if not text:
            continue
        idx = None

        def shows(text, m):
            if text == m:
                return True
            core, lead, trail = text, text.startswith(ELL), text.endswith(ELL)
            if not (lead or trail):
                return False
            if lead:
                core = core[len(ELL):]
            if trail:
                core = core[:-len(ELL)]
            core = core.strip()
            if not core or len(m) <= len(core):
                return False
            return (m.startswith(core) if not lead else (core in m))
        for k, m in enumerate(matches):
            if shows(text, m):
                idx = k
                break
        if idx is None:
            hl = all_items[:cfg["header_lines"]]
            if any(shows(text, t) for t in hl):
                if not header_on:
                    probs.append("header line %r on screen although the header is hidden" % text)
                continue
            if any(shows(text, t) for t in ITEMS + ITEMS2):
                probs.append("item-row %d shows %r which is not among the matches (stale row)" % (i, text))
            continue
        if text.endswith(ELL) and matches[idx] != text:
            width = len(body[i])
            if not text.startswith(ELL) and len(matches[idx]) + 2 <= cfg["size"][1] - (4 if cfg["border"] else 0) - 1:
                probs.append("item-row %d truncated although the line fits: %r" % (i, text))
        found.append((i, idx, ptr == "▌", mk == "┃", matches[idx]))
    used = len(prow) + (0 if cfg["inline"] else len(irow[:1])) + ((1 + cfg["header_lines"]) if header_on else 0)
    if matches and not found and len(body) - used > 0:
        probs.append("no item row although there are %d matches and %d free rows" % (len(matches), len(body) - used))
    if found:
        idxs = [f[1] for f in found]
        rws = [f[0] for f in found]
        if rws != list(range(rws[0], rws[0] + len(rws))):
            probs.append("item rows are not adjacent: %r" % rws)
        step = -1 if cfg["layout"] == "default" else 1
        if any(idxs[k + 1] - idxs[k] != step for k in range(len(idxs) - 1)):
            probs.append("item rows are not a contiguous slice in layout direction: %r" % idxs)
        if cur is not None and cur not in [f[4] for f in found]:
            probs.append("current item %r not on screen" % cur)
        for (i, idx, ptr, mk, t) in found:
            if ptr != (t == cur):
                probs.append("pointer %s row of %r (current is %r)" % ("on" if ptr else "missing on", t, cur))
            if mk != (t in sel):
                probs.append("marker %s row of %r" % ("on" if mk else "missing on", t))
    # header
    hrows = [i for i, r in enumerate(body) if r[2:].rstrip() == header_text]
    if header_on and header_text:
        if len(hrows) != 1:
            probs.append("header %r shown %d times" % (header_text, len(hrows)))
        elif found and rws[0] < hrows[0] < rws[-1]:
            probs.append("header inside the list")
    elif header_text and hrows:
        probs.append("hidden header %r on screen" % header_text)
    return probs


def run_hist(job):
    ci, hist, thorough = job
    cfg = configs(thorough)[ci]
    rows, cols = cfg["size"]
    s = P.Session(["--no-scrollbar", "--multi", "--header", "H0"] + cfg["args"], ITEMS, rows=rows, cols=cols)
    res = dict(evals=0, nt=1 if hist else 0, trans=len(hist))
    q, prompt, header_on, header_text, wrap, sort = "", "> ", True, "H0", False, True
    lines = ITEMS[cfg["header_lines"]:]
    all_items = ITEMS
    try:
        x, ok = s.wait_loaded(len(lines))
        if not ok:
            res["inconclusive"] = "not loaded"
            return res
        for i, a in enumerate(hist):
            if a == "RELOAD":
                all_items = ITEMS2 if all_items is ITEMS else ITEMS
                s.post("reload(printf '%%s\\n' %s)" % " ".join("'%s'" % t for t in all_items))
                lines = all_items[cfg["header_lines"]:]
            elif a == "RESIZE":
                rows, cols = (rows + 1, cols + 3) if i % 2 == 0 else (rows - 1, cols - 3)
                s.resize(rows, cols)
                cfg = dict(cfg, size=(rows, cols))
            else:
                s.post(a)
            for part in a.split("+"):
                if part.startswith("put("):
                    q += part[4:-1]
                elif part == "backward-delete-char":
                    q = q[:-1]
                elif part == "toggle-header":
                    header_on = not header_on
                elif part == "hide-header":
                    header_on = False
                elif part == "show-header":
                    header_on = True
                elif part.startswith("change-header("):
                    header_text = part[14:-1]  # visibility is not changed by change-header
                elif part == "toggle-wrap":
                    wrap = not wrap
                elif part.startswith("change-prompt("):
                    prompt = part[14:-1]
                elif part == "toggle-sort":
                    sort = not sort
            want = P.fzf_filter(lines, q, () if sort else ("--no-sort",))[0]
            x, ok = s.wait_state(lambda x: x["query"] == q and [m["text"] for m in x["matches"]] == want, 10.0)
            if not ok:
                res["inconclusive"] = "results differ from fzf --filter (C08's business) after %s" % a
                return res
            # let the state settle: two identical probes
            prev = None
            for _ in range(100):
                x = s.get()
                if x == prev:
                    break
                prev = x
                s.pump(0.01)
            if i < len(hist) - 1:
                # the forced full redraw below resets fzf's row cache: only the LAST action of a history is judged, shorter
                # histories are jobs of their own
                s.settle_screen(0.03)
                continue
            inc = s.settle_screen(0.06)
            cur1 = (s.screen.y, s.screen.x)
            over1 = s.screen.overflow
            res["evals"] += 1
            # oracle 2 on the incrementally drawn screen
            probs = structural(cfg, inc, x, q, prompt, header_on, header_text, wrap, all_items)
            s.post("clear-screen")
            time.sleep(0.03)
            full = s.settle_screen(0.06)
            cur2 = (s.screen.y, s.screen.x)
            if inc != full or cur1 != cur2:
                # make sure the full redraw is itself stable before believing the difference
                s.post("clear-screen")
                time.sleep(0.05)
                full2 = s.settle_screen(0.08)
                if full2 != full:
                    res["inconclusive"] = "full redraw not stable"
                    return res
                diff = [(k, inc[k] if k < len(inc) else None, full[k] if k < len(full) else None) for k in range(max(len(inc), len(full)))
                        if (inc[k] if k < len(inc) else None) != (full[k] if k < len(full) else None)]
                kind = "other-row"
                txt = " ".join(str(d[1]) for d in diff)
                if header_text and header_text in txt and not header_on:
                    kind = "stale-header-row"
                elif a.endswith("toggle-wrap"):
                    kind = "stale-item-row"
                elif cur1 != cur2 and not diff:
                    kind = "cursor-position"
                res["violation"] = ("incremental!=full:after-%s:%s" % (a.split("(")[0], kind),
                                    {"config": cfg["name"], "history": hist, "at": a, "diff_rows(incremental,full)": diff, "cursor": [cur1, cur2]})
                return res
            if s.screen.overflow:
                res["violation"] = ("glyph-beyond-right-edge", {"config": cfg["name"], "history": hist, "at": a, "screen": inc})
                return res
            if probs:
                res["violation"] = ("structure:" + probs[0].split(":")[0].split(" ")[0], {"config": cfg["name"], "history": hist, "at": a, "problems": probs, "screen": inc,
                                    "state": {"query": x["query"], "current": (x["current"] or {}).get("text"), "matches": [m["text"] for m in x["matches"]][:12],
                                              "selected": [m["text"] for m in x["selected"]]}})
                return res
        res["outcome"] = "%s|%s" % (cfg["layout"], "ok")
        return res
    finally:
        s.close()


def run(c, replay):
    fzf = c.build_fzf()
    P.set_fzf(fzf, c.work + "/pty")
    c.assumptions += ["run with --no-scrollbar: the scrollbar is not part of what the property states",
                      "the VT emulator (engine/ptydrive) is part of the trusted base",
                      "results/query are first brought into agreement with fzf --filter (C08/C09's business); the structural oracle skips item rows while wrapping is on"]
    if replay:
        import json
        j = json.load(open(replay))["detail"]["job"]
        sweep.run_jobs(c, "replay", run_hist, [(j[0], tuple(j[1]), j[2])], deadline_s=120, confirm=1)
        return
    cfgs = configs(c.thorough)
    depth = c.pick(2, 3)
    jobs = []
    for ci in range(len(cfgs)):
        if cfgs[ci].get("header_first"):
            continue
        for d in range(1, depth + 1):
            for h in itertools.product(ACTS, repeat=d):
                if d == 2 and not c.thorough and (ci + ACTS.index(h[0])) % 2:
                    continue  # quick: each configuration gets every second first action (all pairs are covered across configurations of a layout)
                if d == 3 and (ci % 4 != 0 or h[0] in ("first", "last", "page-up", "deselect-all")):
                    continue
                jobs.append((ci, h, c.thorough))
    c.bounds = dict(configurations=len(cfgs), actions=ACTS, depth=depth, items=len(ITEMS), sessions=len(jobs))
    # header visibility histories of depth 3 on --header-first configurations with the info styles that draw a separator row of their own
    hdr_acts = ["hide-header", "show-header", "toggle-header", "change-header(HDR)", "down"]
    for ci, cfg in enumerate(cfgs):
        if cfg.get("header_first"):
            for h in itertools.product(hdr_acts, repeat=3):
                jobs.append((ci, h, c.thorough))
    sweep.run_jobs(c, "histories", run_hist, jobs, deadline_s=c.pick(240, 2400),
                   rule="action histories up to the depth x layouts x window sizes x {plain, inline info, border, header-lines}; after every action: incremental screen == "
                        "screen after a forced full redraw, and the structural oracle against GET /")
