"""C07 - output is the original line, framed and exit-coded as documented.
Layer 1: filter mode (exit is the barrier), byte-level oracle. Layer 2: interactive sessions under a pty: selection
histories x terminal events x framing options."""
import itertools
import re
import signal
import time

import ptydrive as P
import sweep
from model_c09 import Model

ANSI = re.compile(r"(?:\x1b[\[()][0-9;:?]*[a-zA-Z@]|\x1b\][0-9]+[;:][\x20-\x7e]+(?:\x1b\\|\x07)|\x1b.|[\x0e\x0f]|.\x08)")
POOL = ["a b", "  lead", "trail  ", "", "é:x,y", "a:b:", "\x1b[31mred\x1b[m a", "x\ty", "a:b", "가:a"]


def fields(s, delim):
    """fields with their trailing delimiter, for a literal ':' or the regex [:,] (reference: explicit scan)"""
    out, cur = [], ""
    for ch in s:
        cur += ch
        if ch == ":" or (delim == "[:,]" and ch == ","):
            out.append(cur)
            cur = ""
    if cur:
        out.append(cur)
    return out


def strip_last(s, delim):
    if s and (s[-1] == ":" or (delim == "[:,]" and s[-1] == ",")):
        s = s[:-1]
    return s.rstrip(" \t\n\r\x0b\x0c")


def with_nth(s, wn, delim):
    """the transformed (searchable/displayed) text for --with-nth wn"""
    f = fields(s, delim)
    def sel(expr):
        if expr == "2":
            return "".join(f[1:2])
        if expr == "2..":
            return "".join(f[1:])
        if expr == "1":
            return "".join(f[0:1])
        if expr == "1..":
            return "".join(f)
        raise ValueError(expr)
    if wn.startswith("{"):
        return re.sub(r"\{([0-9.]+)\}", lambda m: strip_last(sel(m.group(1)), delim), wn)
    return sel(wn)


# ---------------------------------------------------------------------------------------------- layer 1
def filter_job(job):
    recs, o = job
    res = dict(evals=1)
    delim_in = "\0" if o["read0"] else "\n"
    recs2 = tuple(r + ("\nsecond" if (o["read0"] and i == 0) else "") for i, r in enumerate(recs))
    data = "".join(r + delim_in for r in recs2).encode()
    args = ["-f", o["q"]]
    for k, f in (("read0", "--read0"), ("print0", "--print0"), ("ansi", "--ansi"), ("pq", "--print-query"), ("nosort", "--no-sort")):
        if o[k]:
            args.append(f)
    if o["wn"]:
        args += ["--with-nth", o["wn"], "-d", o["d"]]
    code, out, err = P.run_filter(args, data)
    term = b"\0" if o["print0"] else b"\n"
    shown = [(ANSI.sub("", r) if o["ansi"] else r) for r in recs2]
    exp_all = [s.encode() + term for s in shown]
    detail = {"args": args, "stdin": data.decode("utf-8", "replace"), "stdout": out.decode("utf-8", "replace"), "exit": code}
    rest = out
    if o["pq"]:
        head = o["q"].encode() + term
        if not rest.startswith(head):
            res["violation"] = ("filter:print-query-line", detail)
            return res
        rest = rest[len(head):]
    # which records must be printed
    if o["q"] == "":
        want = list(exp_all)
        ordered = True
    elif o["q"] == "zzz":
        want, ordered = [], True
    else:
        ordered = False
        want = []
        for s, e in zip(shown, exp_all):
            text = with_nth(s, o["wn"], o["d"]) if o["wn"] else s
            if "a" in text.lower():
                want.append(e)
    # greedy segmentation of stdout into original records
    got, pos, okseg = [], 0, True
    cands = sorted(set(exp_all), key=len, reverse=True)
    while pos < len(rest):
        for e in cands:
            if rest.startswith(e, pos):
                got.append(e)
                pos += len(e)
                break
        else:
            okseg = False
            break
    if not okseg:
        res["violation"] = ("filter:stdout-is-not-a-sequence-of-original-records", detail)
    elif (got != want) if ordered else (sorted(got) != sorted(want)):
        detail["want"] = [w.decode("utf-8", "replace") for w in want]
        res["violation"] = ("filter:wrong-records", detail)
    elif code != (0 if want else 1):
        res["violation"] = ("filter:exit-status", detail)
    elif err:
        detail["stderr"] = err.decode("utf-8", "replace")
        res["violation"] = ("filter:stderr-output", detail)
    if want:
        res["nt"] = 1
    res["outcome"] = "exit%d" % code
    return res


def error_job(args):
    code, out, err = P.run_filter(list(args), b"a\nb\n")
    res = dict(evals=1, nt=1, outcome="exit%d" % code)
    if code != 2 or out != b"" or not err.strip() or b"goroutine " in err or b"panic" in err:
        res["violation"] = ("error-exit", {"args": list(args), "exit": code, "stdout": out.decode("utf-8", "replace"), "stderr": err.decode("utf-8", "replace")[:400]})
    return res


# ---------------------------------------------------------------------------------------------- layer 2
ITEMS = ["a:1 x", " b:2", "c:3", "ab:4", "é:5"]


def accept_nth(it, an):
    f = fields(it, ":")
    if an == "1":
        return strip_last("".join(f[0:1]), ":")
    if an == "2":
        return strip_last("".join(f[1:2]), ":")
    if an == "{2}-{1}":
        return strip_last("".join(f[1:2]), ":") + "-" + strip_last("".join(f[0:1]), ":")
    raise ValueError(an)


def interactive_job(job):
    cfg, hist, final = job
    args = ["--no-scrollbar"]
    if cfg["multi"]:
        args.append("--multi")
    if cfg["print0"]:
        args.append("--print0")
    if cfg["pq"]:
        args.append("--print-query")
    if cfg["expect"]:
        args += ["--expect", "ctrl-x,f2"]
    if cfg["an"]:
        args += ["--accept-nth", cfg["an"], "-d", ":"]
    if cfg["wn"]:
        args += ["--with-nth", "2..", "-d", ":"]
    q = cfg.get("query", "")
    if q:
        args += ["-q", q]
    s = P.Session(args, ITEMS, rows=12, cols=50)
    res = dict(evals=1, nt=1 if hist else 0, trans=len(hist) + 1)
    fargs = ("--with-nth", "2..", "-d", ":") if cfg["wn"] else ()
    m = Model(ITEMS, query=q, multi=(2 ** 31 - 1) if cfg["multi"] else 0, filter_args=fargs)
    try:
        st, ok = s.wait_loaded(len(ITEMS))
        if not ok:
            res["inconclusive"] = "not loaded"
            return res
        for a in hist:
            s.post(a)
            for part in a.split("+"):
                m.do(part)
        want = m.obs()
        # barrier: the event loop handles POSTs in order; wait until the state probe agrees with the model
        # (the ORDER of the selection is judged on the printed output below, not here)
        x, ok = s.wait_state(lambda x: x["position"] == want["position"] and sorted(y["text"] for y in x["selected"]) == sorted(want["selected"]), 10.0)
        if not ok:
            res["inconclusive"] = "selection state differs from the model (C09's business): %r" % (hist,)
            return res
        term = "\0" if cfg["print0"] else "\n"
        out = []
        xf = (lambda it: accept_nth(it, cfg["an"])) if cfg["an"] else (lambda it: it)
        chosen = want["selected"] if want["selected"] else ([want["current"]] if want["current"] is not None else [])
        q = want["query"]  # histories may edit the query
        if cfg["pq"]:
            out.append(q)
        pressed = ""
        expcode = None
        if final == "abort":
            s.post("abort")
            out, expcode = [], 130
        elif final == "sigterm":
            s.signal(signal.SIGTERM)
            out, expcode = [], 130
        elif final == "key:esc":
            s.keys(b"\x1b")
            out, expcode = [], 130
        elif final == "print-query":
            s.post("print-query")
            if cfg["expect"]:
                out.append("")
            out = ([q] if True else [])  # print-query prints only the query
            expcode = 0
        elif final == "accept-or-print-query":
            s.post("accept-or-print-query")
            if chosen:
                if cfg["expect"]:
                    out.append("")
                out += [xf(i) for i in chosen]
                expcode = 0
            else:
                out, expcode = [q], 0
        elif final in ("key:ctrl-x", "key:f2"):
            s.keys({"key:ctrl-x": b"\x18", "key:f2": b"\x1bOQ"}[final])
            out.append(final[4:])
            out += [xf(i) for i in chosen]
            expcode = 0 if chosen else 1
        elif final == "print(x)+accept":
            s.post("print(x y)+accept")
            if cfg["expect"]:
                out.append("")
            out.append("x y")
            out += [xf(i) for i in chosen]
            expcode = 0 if chosen else 1
        elif final == "accept-non-empty":
            s.post("accept-non-empty")
            if chosen:
                if cfg["expect"]:
                    out.append("")
                out += [xf(i) for i in chosen]
                expcode = 0
            else:
                # nothing to accept: fzf must stay; then abort
                time.sleep(0.05)
                if not s.alive():
                    res["violation"] = ("interactive:accept-non-empty-exited", {"config": cfg, "history": hist})
                    return res
                s.post("abort")
                out, expcode = [], 130
        else:  # accept (enter key or action)
            if final == "key:enter":
                s.keys(b"\r")
            else:
                s.post("accept")
            if cfg["expect"]:
                out.append("")
            out += [xf(i) for i in chosen]
            expcode = 0 if chosen else 1
        code = s.wait_exit(15.0)
        got = s.stdout.decode("utf-8", "replace")
        wants = "".join(o + term for o in out)
        res["outcome"] = "%s->exit%s" % (final, code)
        if got != wants or code != expcode:
            res["violation"] = ("interactive:" + final.split("(")[0], {"config": cfg, "history": hist, "final": final, "stdout": got, "exit": code,
                                                                       "want_stdout": wants, "want_exit": expcode})
        return res
    finally:
        s.close()


def auto_job(job):
    """--select-1 / --exit-0 with 0, 1, 2 matches"""
    opt, q, cfg = job
    args = [opt, "-q", q]
    if cfg["print0"]:
        args.append("--print0")
    if cfg["pq"]:
        args.append("--print-query")
    if cfg["expect"]:
        args += ["--expect", "ctrl-x"]
    matches = P.fzf_filter(ITEMS, q)[0]
    s = P.Session(args, ITEMS, rows=12, cols=50, listen=False)
    res = dict(evals=1, nt=1)
    try:
        term = "\0" if cfg["print0"] else "\n"
        auto = (opt == "--select-1" and len(matches) == 1) or (opt == "--exit-0" and len(matches) == 0)
        if auto:
            code = s.wait_exit(15.0)
            out = []
            if cfg["pq"]:
                out.append(q)
            if cfg["expect"]:
                out.append("")
            out += matches[:1]
            wants, expcode = "".join(o + term for o in out), (0 if matches else 1)
        else:
            time.sleep(0.3)
            s.pump(0.05)
            if not s.alive():
                res["violation"] = ("auto:exited-with-%d-matches" % len(matches), {"opt": opt, "query": q, "exit": s.exit_code()})
                return res
            s.keys(b"\x1b")
            code = s.wait_exit(15.0)
            wants, expcode = "", 130
        got = s.stdout.decode("utf-8", "replace")
        res["outcome"] = "%s/%d->exit%s" % (opt, len(matches), code)
        if got != wants or code != expcode:
            res["violation"] = ("auto:" + opt, {"opt": opt, "query": q, "config": cfg, "stdout": got, "exit": code, "want_stdout": wants, "want_exit": expcode})
        return res
    finally:
        s.close()


def run(c, replay):
    fzf = c.build_fzf()
    P.set_fzf(fzf, c.work + "/pty")
    c.assumptions += ["matching itself is C01's business: the filter layer uses the empty query (all records), a single letter "
                      "(records whose searchable text contains it) and a non-matching query",
                      "interactive: the selection state is brought into agreement with the C09 model before the terminal event is issued"]
    if replay:
        import json
        d = json.load(open(replay))
        job = d["detail"].get("job")
        layer = d["layer"]
        fn = {"filter": filter_job, "errors": error_job, "interactive": interactive_job, "auto": auto_job}[layer]
        def tup(x):
            return tuple(tup(i) for i in x) if isinstance(x, list) else x
        job = tup(job) if layer != "interactive" else (job[0], tuple(job[1]), job[2])
        if layer == "filter":
            job = (tuple(job[0]), job[1])
        sweep.run_jobs(c, layer, fn, [job], deadline_s=60, confirm=1)
        return
    # ---- layer 1
    nrec = c.pick(2, 3)
    jobs = []
    for n in range(1, nrec + 1):
        for recs in itertools.product(POOL, repeat=n):
            if n == 3 and len(set(recs)) < 3:
                continue
            for read0, print0, ansi, pq, nosort in itertools.product((False, True), repeat=5):
                for q in ("", "a", "zzz"):
                    for wn, d in ((None, None), ("2", ":"), ("2..", ":"), ("{2}:{1}", ":"), ("2", "[:,]"), ("1..", ":")):
                        if q == "a" and wn and any("\x1b" in r for r in recs):
                            continue
                        if n == 3 and (read0 != print0 or (wn and d != ":")):
                            continue  # thin the third record level
                        jobs.append((recs, dict(read0=read0, print0=print0, ansi=ansi, pq=pq, nosort=nosort, q=q, wn=wn, d=d)))
    c.bounds["filter"] = dict(records="<=%d from a %d-record pool" % (nrec, len(POOL)), options="read0 x print0 x ansi x print-query x no-sort x 3 queries x 6 with-nth/delimiter settings (incl. 1.., which reproduces the whole record)")
    sweep.run_jobs(c, "filter", filter_job, jobs, deadline_s=c.pick(90, 900),
                   rule="fzf --filter processes over all record lists x option combinations; stdout compared byte-wise with the framing model; non-trivial = runs that must print at least one record")
    errs = [("--nth", "0"), ("--bogus",), ("--with-nth", ""), ("--tiebreak", "x"), ("--height", "-x"), ("--bind", "a:nonexistent-action"),
            ("--delimiter",), ("--color", "fg:zzz"), ("--tail", "-1"), ("--accept-nth", "{x}"), ("--expect", "nokey"), ("--walker", "zzz"), ("--listen", "x:y:z"),
            ("--filter",), ("--algo", "v3"), ("--layout", "top")]
    sweep.run_jobs(c, "errors", error_job, errs, deadline_s=60, rule="malformed command lines: exit 2, message on stderr, empty stdout, no stack trace")
    # ---- layer 2
    cfgs = []
    for multi, print0, pq, expect in itertools.product((False, True), repeat=4):
        for an in (None, "1", "{2}-{1}"):
            for wn in (False, True):
                if wn and an == "{2}-{1}":
                    continue
                cfgs.append(dict(multi=multi, print0=print0, pq=pq, expect=expect, an=an, wn=wn))
    acts = ["up", "down", "toggle", "up+toggle", "select-all", "toggle-all", "deselect"]
    depth = c.pick(2, 3)
    hists = [()] + [h for d in range(1, depth + 1) for h in itertools.product(acts, repeat=d)]
    jobs = []
    for cfg in cfgs:
        finals = ["accept", "key:enter", "abort", "print-query", "accept-or-print-query", "accept-non-empty", "print(x)+accept", "sigterm", "key:esc"]
        if cfg["expect"]:
            finals += ["key:ctrl-x", "key:f2"]
        for h in hists:
            if not cfg["multi"] and len(h) > 1:
                continue
            if len(h) >= 2 and (cfg["an"] or cfg["wn"]) and (len(h) == 3 or not c.thorough):
                continue
            if len(h) == 2 and not c.thorough and (cfg["print0"] != cfg["pq"]):
                continue
            fs = finals if len(h) <= 1 else finals[:1] + finals[6:7] + (finals[-1:] if cfg["expect"] else [])
            for f in fs:
                jobs.append((cfg, h, f))
        # the print order is the selection order also after items were deselected and others selected later:
        # select-all (5 items), deselect the first k, then select one of them again / move and select
        if cfg["multi"] and not cfg["an"] and not cfg["wn"] and not cfg["expect"]:
            for k in (1, 2, 3):
                for again in ("first+toggle", "first+up+toggle", "last+toggle+toggle", "first+toggle+up+toggle"):
                    jobs.append((cfg, ("select-all", "first") + ("toggle+up",) * k + (again,), "accept"))
            jobs.append((cfg, ("toggle+up", "toggle+up", "toggle+up", "first", "toggle+up", "toggle+up", "up", "toggle"), "accept"))
        # the selection outlives the matches: select, then edit the query so that fewer / no lines match (nothing under the cursor),
        # then every accepting event: the selected records are printed in selection order, exit 0
        if cfg["multi"] and not cfg["wn"]:
            for sel in (("toggle",), ("up+toggle", "toggle"), ("select-all",), ("toggle", "deselect")):
                for edit in ("put(zzz)", "put(b)", "put(zzz)+backward-kill-word"):
                    fs = ["accept", "accept-or-print-query", "accept-non-empty", "print(x)+accept"] + (["key:ctrl-x"] if cfg["expect"] else [])
                    if not c.thorough and (cfg["print0"] or cfg["an"] == "{2}-{1}"):
                        fs = fs[:1]
                    for f in fs:
                        jobs.append((cfg, sel + (edit,), f))
        # a query that matches nothing: accept prints nothing and exits 1; accept-or-print-query prints the query
        for f in ("accept", "accept-or-print-query", "accept-non-empty", "print-query"):
            jobs.append((dict(cfg, query="zzz"), (), f))
    c.bounds["interactive"] = dict(configurations=len(cfgs), selection_actions=acts, depth=depth,
                                   terminal_events="accept, enter, abort, esc, SIGTERM, print-query, accept-or-print-query, accept-non-empty, print()+accept, --expect keys")
    sweep.run_jobs(c, "interactive", interactive_job, jobs, deadline_s=c.pick(150, 1500),
                   rule="selection histories x terminal events x (multi, print0, print-query, expect, accept-nth, with-nth); stdout bytes and exit status vs the framing model")
    jobs = [(opt, q, dict(print0=p0, pq=pq, expect=ex)) for opt in ("--select-1", "--exit-0") for q in ("zzz", "c", "a")
            for p0, pq, ex in itertools.product((False, True), repeat=3)]
    sweep.run_jobs(c, "auto", auto_job, jobs, deadline_s=120, rule="--select-1 / --exit-0 with 0, 1 and 2+ matches x framing options")
