"""C08 layer (c): end to end on the real binary (pty + --listen, built with -tags verif).
Event sequences over query edits, sort toggles, exclusion, change-nth, reload / reload-sync, input arriving on stdin in
pieces, end of input, and a hook that holds every scan chunk ("a search is in progress") until released.
Oracle (eventual agreement): GET / {query, matches, counts} == `fzf --filter <query>` over the currently loaded input."""
import itertools
import os
import shutil
import tempfile
import time

import ptydrive as P
import sweep

INPUT1 = ["ab x", "b a", "a:b c", "xx", "ba ab", "c a", "abc", "a"]
INPUT2 = ["zz", "ab q", "qa b", "a"]
MORE = ["more a", "b more", "ab"]
EVENTS = ["put(a)", "put(b)", "backward-delete-char", "clear-query", "change-query(a b)", "toggle-sort", "exclude", "up",
          "change-nth(2)", "change-nth(1)", "RELOAD2", "RELOAD1", "RELOADSYNC2", "backward-delete-char+put(c)", "put(a)+put(b)",
          "beginning-of-line+forward-char+backward-delete-char+put(b)", "STDIN-MORE", "STDIN-EOF", "HOLD", "RELEASE", "RELOAD-2BATCH-SAMECOUNT", "RELOAD-SLOWSTART", "EXCLUDE+RELOAD-SLOWSTART"]


def oracle(lines, query, sort, nth, excluded):
    args = []
    if not sort:
        args.append("--no-sort")
    if nth:
        args += ["--nth", nth]
    out, _ = P.fzf_filter(lines, query, args)
    return [l for l in out if l not in excluded]


def run_seq(job):
    start_big, seq = job
    res = dict(evals=1, nt=1 if seq else 0, trans=len(seq))
    d = tempfile.mkdtemp(prefix="c08-", dir=P.WORKROOT)
    s = None
    try:
        f1, f2 = d + "/in1", d + "/in2"
        base = list(INPUT1)
        if start_big == 1:
            base = base + ["filler %d %s" % (i, "ab"[i % 2]) for i in range(230)]  # three chunks
        open(f1, "w").write("".join(l + "\n" for l in INPUT1))
        open(f2, "w").write("".join(l + "\n" for l in INPUT2))
        s = P.Session(["--no-scrollbar"], None, rows=14, cols=60, stdin_data="".join(l + "\n" for l in base).encode(), keep_stdin=True,
                      hook_points=["matcher:chunk"], hook_auto=["matcher:chunk"])
        q, sort, nth, lines, excluded, cy = [], True, None, list(base), [], 0
        stdin_open, from_stdin = True, True
        nreload = 0
        landing = False
        slow_until = 0
        pending_reload = None  # a reload issued while stdin is still being read starts when that read ends

        def apply_pending():
            nonlocal lines, excluded, from_stdin, pending_reload
            if pending_reload is not None:
                lines, excluded, from_stdin, pending_reload = list(pending_reload), [], False, None
        if start_big == 2:
            s.close_stdin()
            stdin_open = False
        st, ok = s.wait_state(lambda x: x["totalCount"] == len(lines), 10.0)
        if not ok:
            res["inconclusive"] = "initial load"
            return res
        for ev in seq:
            cur = oracle(lines, "".join(q), sort, nth, excluded)
            if ev == "HOLD":
                s.hooks.auto = set()
                continue
            if ev == "RELEASE":
                s.hooks.release_all()
                continue
            if ev == "STDIN-MORE":
                if stdin_open:
                    try:
                        s.feed_stdin("".join(l + "\n" for l in MORE))
                    except (BrokenPipeError, OSError):
                        # fzf closed its stdin (a reload terminated the stdin reader): nothing is read any more
                        s.close_stdin()
                        stdin_open = False
                        apply_pending()
                        continue
                    if from_stdin:
                        lines = lines + MORE
                else:
                    continue
            elif ev == "STDIN-EOF":
                if stdin_open:
                    s.close_stdin()
                    stdin_open = False
                    apply_pending()
                else:
                    continue
            elif ev == "RELOAD-2BATCH-SAMECOUNT":
                # a reload whose input arrives in two batches and ends with exactly as many lines as are loaded now
                nreload += 1
                n = max(2, len(lines))
                new = ["s%d-%d %s" % (nreload, i, "ab"[i % 2]) for i in range(n - 1)] + ["rl%d a" % nreload]
                k = max(1, n // 2)
                s.post("reload(printf '%%s\\n' %s; sleep 0.3; printf '%%s\\n' %s)" % (" ".join("'%s'" % l for l in new[:k]), " ".join("'%s'" % l for l in new[k:])))
                pending_reload = new
                if not (stdin_open and from_stdin):
                    apply_pending()
            elif ev in ("RELOAD-SLOWSTART", "EXCLUDE+RELOAD-SLOWSTART"):
                if ev.startswith("EXCLUDE"):
                    # exclusions are dropped by the reload, whatever happens in the gap before its first output
                    cy = min(cy, max(0, len(cur) - 1))
                    if cur:
                        excluded.append(cur[cy])
                    s.post("exclude")
                # the command stays silent for a while: the following events are handled in the gap before its first output
                nreload += 1
                marker = "rl%d a" % nreload
                s.post("reload(sleep 0.5; cat %s; echo %s)" % (f2, marker))
                pending_reload = list(INPUT2) + [marker]
                slow_until = time.time() + 0.45
                if not (stdin_open and from_stdin):
                    # the reload is running but has not delivered anything: it lands at the end of the sequence (or when the driver waits)
                    landing = True
            elif ev.startswith("RELOAD"):
                which = f2 if ev.endswith("2") else f1
                # a per-reload marker line makes "the reload has landed" observable even when the content repeats
                nreload += 1
                marker = "rl%d a" % nreload
                s.post(("reload-sync" if "SYNC" in ev else "reload") + "(cat %s; echo %s)" % (which, marker))
                pending_reload = list(INPUT2 if which == f2 else INPUT1) + [marker]
                if not (stdin_open and from_stdin):
                    apply_pending()
            else:
                s.post(ev)
                for a in ev.split("+"):
                    if a.startswith("put("):
                        pass
                # the query after the chain comes from the C09 editor model restricted to what is used here
                qq, cx = q, len(q) if not hasattr(run_seq, "_cx") else run_seq._cx
                cx = res.get("_cx", len(q))
                for a in ev.split("+"):
                    if a.startswith("put("):
                        qq = qq[:cx] + [a[4:-1]] + qq[cx:]
                        cx += 1
                    elif a == "backward-delete-char":
                        if cx > 0:
                            qq = qq[:cx - 1] + qq[cx:]
                            cx -= 1
                    elif a == "clear-query":
                        qq, cx = [], 0
                    elif a.startswith("change-query("):
                        qq = list(a[13:-1])
                        cx = len(qq)
                    elif a == "beginning-of-line":
                        cx = 0
                    elif a == "forward-char":
                        cx = min(len(qq), cx + 1)
                    elif a == "toggle-sort":
                        sort = not sort
                    elif a == "up":
                        cy = min(cy + 1, max(0, len(cur) - 1))
                    elif a == "exclude":
                        cy = min(cy, max(0, len(cur) - 1))
                        if cur:
                            excluded.append(cur[cy])
                    elif a.startswith("change-nth("):
                        nth = a[11:-1]
                q = qq
                res["_cx"] = cx
            if (s.hooks.auto == set() and ev not in ("RELEASE",)) or pending_reload is not None:
                # searches are held / a reload waits for the end of stdin: nothing can be demanded yet
                continue
            want = oracle(lines, "".join(q), sort, nth, excluded)

            def agree(x, want=want, q=q, lines=lines):
                return (x["query"] == "".join(q) and [m["text"] for m in x["matches"]] == want and x["matchCount"] == len(want)
                        and x["totalCount"] == len(lines) and (stdin_open or not from_stdin or not x["reading"]))
            x, ok = s.wait_state(agree, deadline=10.0)
            if not ok:
                got = None if x is None else {"query": x["query"], "matches": [m["text"] for m in x["matches"]], "matchCount": x["matchCount"],
                                              "total": x["totalCount"], "reading": x["reading"]}
                res["violation"] = ("not-converged-after:" + ev.split("(")[0].split("+")[0], {"start_big": start_big, "sequence": seq, "at": ev, "fzf": got,
                                    "want": {"query": "".join(q), "matches": want, "total": len(lines)}})
                res.pop("_cx", None)
                return res
            cy = x["position"]
        # end of the sequence: release held searches, end the input, and demand convergence
        s.hooks.release_all()
        if stdin_open:
            s.close_stdin()
            stdin_open = False
        apply_pending()
        want = oracle(lines, "".join(q), sort, nth, excluded)
        x, ok = s.wait_state(lambda x: x["query"] == "".join(q) and [m["text"] for m in x["matches"]] == want and x["matchCount"] == len(want)
                             and x["totalCount"] == len(lines) and not x["reading"], deadline=10.0)
        res.pop("_cx", None)
        res["outcome"] = "converged" if ok else "not-converged"
        if not ok:
            got = None if x is None else {"query": x["query"], "matches": [m["text"] for m in x["matches"]], "matchCount": x["matchCount"],
                                          "total": x["totalCount"], "reading": x["reading"]}
            res["violation"] = ("not-converged-at-quiescence", {"start_big": start_big, "sequence": seq, "fzf": got,
                                                                "want": {"query": "".join(q), "matches": want, "total": len(lines)}})
        return res
    finally:
        if s:
            s.close()
        shutil.rmtree(d, ignore_errors=True)


def layer_c(c, replay=None):
    fzf = c.build_fzf(out="fzf-verif", tags="verif")
    P.set_fzf(fzf, c.work + "/pty")
    if replay:
        import json
        j = json.load(open(replay))["detail"]["job"]
        sweep.run_jobs(c, "end-to-end", run_seq, [(j[0], tuple(j[1]))], deadline_s=120, confirm=1)
        return
    depth = c.pick(2, 3)
    jobs = [(big, q) for big in (0, 1, 2) for d in range(1, depth + 1) for q in itertools.product(EVENTS, repeat=d)
            if not (d == 3 and big == 1)]
    c.bounds["end_to_end"] = dict(events=EVENTS, depth=depth, start_states=["8 lines, stdin open", "238 lines (three chunks), stdin open", "8 lines, input ended"], sessions=len(jobs))
    sweep.run_jobs(c, "end-to-end", run_seq, jobs, deadline_s=c.pick(150, 1500),
                   rule="every event sequence up to the depth from two start states on the real binary; after every event (unless searches are held by the "
                        "matcher:chunk hook) and at quiescence GET / must equal fzf --filter of the current query over the currently loaded input")
