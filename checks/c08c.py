"""C08 layer (c): end to end on the real binary (pty + --listen, built with -tags verif).
Event sequences over query edits, sort toggles, exclusion, change-nth, reload / reload-sync (immediate, slow-starting,
two-batch with an unchanged item count), input arriving on stdin in pieces, end of input, a hook that holds every scan
chunk ("a search is in progress"), and BURSTs: two requests delivered while the coordinator is parked at a hook point,
i.e. inside one polling interval.
Oracle (eventual agreement): GET / {query, matches, counts} == `fzf --filter <query>` over the currently loaded input."""
import itertools
import os
import shutil
import tempfile
import time

import ptydrive as P
import sweep

INPUT1 = ["ab x", "b a", "a:b c", "xx", "ba ab", "c a", "abc", "a"]
INPUT2 = ["zz", "ab q", "qa b", "a"]
MORE = ["more a", "b more", "ab"]
# for the slow-starting reloads: as many lines as INPUT1 and every one of them matches a, b, "a b" and the empty query, so that an item that
# stays hidden after the reload (exclusions are by item index) is missed from the result whatever the index and the query
INPUT3 = ["ab c", "ba q", "a b", "b a", "abc b", "q ab", "bab", "aba"]
BASE_EVENTS = ["put(a)", "put(b)", "backward-delete-char", "clear-query", "change-query(a b)", "toggle-sort", "exclude", "up",
               "change-nth(2)", "change-nth(1)", "RELOAD2", "RELOAD1", "RELOADSYNC2", "backward-delete-char+put(c)", "put(a)+put(b)",
               "beginning-of-line+forward-char+backward-delete-char+put(b)", "STDIN-MORE", "STDIN-EOF", "HOLD", "RELEASE",
               "RELOAD-2BATCH-SAMECOUNT", "RELOAD-SLOWSTART", "EXCLUDE+RELOAD-SLOWSTART"]
BURST_PARTS = ["RELOAD1", "change-nth(2)", "exclude", "put(a)", "backward-delete-char", "toggle-sort"]
BURSTS = ["BURST:%s|%s" % (a, b) for a in BURST_PARTS for b in BURST_PARTS if a != b]
EVENTS = BASE_EVENTS + BURSTS


def oracle(lines, query, sort, nth, excluded):
    args = []
    if not sort:
        args.append("--no-sort")
    if nth:
        args += ["--nth", nth]
    out, _ = P.fzf_filter(lines, query, args)
    return [l for l in out if l not in excluded]


class World:
    """the driver's model of one session: what is loaded, the query line, options, exclusions, what is in flight"""

    def __init__(self, s, base, f1, f2):
        self.s, self.f1, self.f2 = s, f1, f2
        self.q, self.cx = [], 0
        self.sort, self.nth = True, None
        self.lines, self.excluded, self.cy = list(base), [], 0
        self.stdin_open, self.from_stdin = True, True
        self.pending_reload = None   # content of a reload that has been issued but cannot have landed yet
        self.nreload = 0
        self.held = False            # searches held by the matcher:chunk hook
        self.displayed = list(base)  # the list last known to be on display

    def current(self):
        return oracle(self.lines, "".join(self.q), self.sort, self.nth, self.excluded)

    def apply_pending(self):
        if self.pending_reload is not None:
            self.lines, self.excluded, self.from_stdin, self.pending_reload = list(self.pending_reload), [], False, None

    def reload_content(self, which):
        # every reloaded line carries the number of its reload: "the reload has landed" is then visible in the texts of the
        # match list (a count alone can be reported before the new list is displayed)
        self.nreload += 1
        return ["%s ~%d" % (l, self.nreload) for l in {1: INPUT1, 2: INPUT2, 3: INPUT3}[which]]

    def edit(self, a):
        q, cx = self.q, self.cx
        if a.startswith("put("):
            q = q[:cx] + [a[4:-1]] + q[cx:]
            cx += 1
        elif a == "backward-delete-char":
            if cx > 0:
                q = q[:cx - 1] + q[cx:]
                cx -= 1
        elif a == "clear-query":
            q, cx = [], 0
        elif a.startswith("change-query("):
            q = list(a[13:-1])
            cx = len(q)
        elif a == "beginning-of-line":
            cx = 0
        elif a == "forward-char":
            cx = min(len(q), cx + 1)
        elif a == "toggle-sort":
            self.sort = not self.sort
        elif a == "up":
            self.cy = min(self.cy + 1, max(0, len(self.cur_before) - 1))
        elif a == "exclude":
            self.cy = min(self.cy, max(0, len(self.cur_before) - 1))
            if self.cur_before:
                self.excluded.append(self.cur_before[self.cy])
        elif a.startswith("change-nth("):
            self.nth = a[11:-1]
        self.q, self.cx = q, cx

    def post_reload(self, body, content, immediate=True):
        self.reload_since_display = True
        self.s.post(body)
        self.pending_reload = content
        if immediate and not (self.stdin_open and self.from_stdin):
            self.apply_pending()

    def do(self, ev):
        """issue one event; returns False when the event does not apply in this state"""
        s = self.s
        # exclude / up act on the list that is DISPLAYED: the current result when everything has settled, else the last list
        # that was displayed (searches held by the hook, or a reload that cannot have landed yet)
        self.cur_before = self.current() if self.settled() else self.displayed
        if ev == "exclude" and not self.settled() and getattr(self, "reload_since_display", False):
            # D28 shape: the item under the cursor belongs to a display that a reload has already replaced behind the scenes
            self.stale_exclude = True
        if ev == "HOLD":
            s.hooks.auto.discard("matcher:chunk")
            self.held = True
        elif ev == "RELEASE":
            s.hooks.auto.add("matcher:chunk")
            while s.hooks.release("matcher:chunk"):
                pass
            self.held = False
        elif ev == "STDIN-MORE":
            if not self.stdin_open:
                return False
            try:
                s.feed_stdin("".join(l + "\n" for l in MORE))
            except (BrokenPipeError, OSError):
                # fzf closed its stdin (a reload terminated the stdin reader): nothing is read any more
                s.close_stdin()
                self.stdin_open = False
                self.apply_pending()
                return True
            if self.from_stdin:
                self.lines = self.lines + MORE
        elif ev == "STDIN-EOF":
            if not self.stdin_open:
                return False
            s.close_stdin()
            self.stdin_open = False
            self.apply_pending()
        elif ev == "RELOAD-2BATCH-SAMECOUNT":
            # the input arrives in two batches and ends with exactly as many lines as are loaded now
            self.nreload += 1
            n = max(2, len(self.lines))
            new = ["s%d-%d %s" % (self.nreload, i, "ab"[i % 2]) for i in range(n)]
            k = max(1, n // 2)
            self.post_reload("reload(printf '%%s\\n' %s; sleep 0.3; printf '%%s\\n' %s)" % (" ".join("'%s'" % l for l in new[:k]), " ".join("'%s'" % l for l in new[k:])), new)
        elif ev in ("RELOAD-SLOWSTART", "EXCLUDE+RELOAD-SLOWSTART"):
            if ev.startswith("EXCLUDE"):
                self.edit("exclude")
                s.post("exclude")
            # the command stays silent for a while: the following events are handled in the gap before its first output
            new = self.reload_content(3)
            self.post_reload("reload(sleep 0.5; printf '%%s\\n' %s)" % " ".join("'%s'" % l for l in new), new, immediate=False)
        elif ev.startswith("RELOAD"):
            new = self.reload_content(2 if ev.endswith("2") else 1)
            self.post_reload(("reload-sync" if "SYNC" in ev else "reload") + "(printf '%%s\\n' %s)" % " ".join("'%s'" % l for l in new), new)
        elif ev.startswith("BURST:"):
            # two requests inside ONE polling interval of the coordinator: park it at core:wait (a first request makes it come
            # round to the hook point), issue both, release
            a, b = ev[6:].split("|")
            displayed = self.cur_before  # while the coordinator is parked nothing new is displayed: exclude / up act on this list
            s.hooks.auto.discard("core:wait")
            s.post("toggle-sort")
            self.cur_before = displayed
            self.edit("toggle-sort")
            t0 = time.time()
            while time.time() - t0 < 5 and not s.hooks.held("core:wait"):
                s.pump(0.005)
            for part in (a, b):
                self.cur_before = displayed
                if part.startswith("RELOAD"):
                    new = self.reload_content(1)
                    self.post_reload("reload(printf '%%s\\n' %s)" % " ".join("'%s'" % l for l in new), new)
                else:
                    s.post(part)
                    self.edit(part)
            s.hooks.auto.add("core:wait")
            while s.hooks.release("core:wait"):
                pass
        else:
            s.post(ev)
            for a in ev.split("+"):
                self.edit(a)
        return True

    def settled(self):
        """can the per-event agreement be demanded now?"""
        return not self.held and self.pending_reload is None

    def agree(self, x):
        want = self.want
        return (x["query"] == "".join(self.q) and [m["text"] for m in x["matches"]] == want and x["matchCount"] == len(want)
                and x["totalCount"] == len(self.lines) and (self.stdin_open and self.from_stdin or not x["reading"]))


def run_seq(job):
    start, seq = job
    res = dict(evals=1, nt=1 if seq else 0, trans=len(seq))
    d = tempfile.mkdtemp(prefix="c08-", dir=P.WORKROOT)
    s = None
    try:
        base = list(INPUT1)
        if start == 1:
            base = base + ["filler %d %s" % (i, "ab"[i % 2]) for i in range(230)]  # three chunks
        s = P.Session(["--no-scrollbar"], None, rows=14, cols=60, stdin_data="".join(l + "\n" for l in base).encode(), keep_stdin=True,
                      hook_points=["matcher:chunk", "core:wait"], hook_auto=["matcher:chunk", "core:wait"])
        w = World(s, base, None, None)
        w.want = w.current()
        x, ok = s.wait_state(w.agree, 10.0)  # the initial list is displayed, not merely counted
        if not ok:
            res["inconclusive"] = "initial load"
            return res
        w.displayed = list(w.want)
        if start == 2:
            s.close_stdin()
            w.stdin_open = False
        for ev in seq:
            if not w.do(ev):
                continue
            # the auto-released core:wait hook is served by this driver: keep serving it for a moment, so that the coordinator comes
            # round and picks the request up BEFORE the next event is issued - otherwise two consecutive events reach it as one
            # merged request (that is what the BURST events are for) and "a query edit in the gap after a reload" never happens
            for _ in range(4):
                s.pump(0.03)
            if not w.settled():
                continue  # searches are held / a reload waits for the end of stdin: nothing can be demanded yet
            w.want = w.current()
            x, ok = s.wait_state(w.agree, deadline=10.0)
            if not ok:
                got = None if x is None else {"query": x["query"], "matches": [m["text"] for m in x["matches"]], "matchCount": x["matchCount"],
                                              "total": x["totalCount"], "reading": x["reading"]}
                kind = "burst" if ev.startswith("BURST:") else ev.split("(")[0].split("+")[0]
                res["violation"] = ("not-converged-after:" + kind, {"start": start, "sequence": seq, "at": ev, "fzf": got,
                                    "want": {"query": "".join(w.q), "matches": w.want, "total": len(w.lines)}})
                return res
            w.cy = x["position"]
            w.displayed = list(w.want)
            w.reload_since_display = False
        # end of the sequence: release held searches, end the input, and demand convergence
        s.hooks.release_all()
        w.held = False
        if w.stdin_open:
            s.close_stdin()
            w.stdin_open = False
        w.apply_pending()
        w.want = w.current()
        x, ok = s.wait_state(w.agree, deadline=10.0)
        res["outcome"] = "converged" if ok else "not-converged"
        if not ok:
            got = None if x is None else {"query": x["query"], "matches": [m["text"] for m in x["matches"]], "matchCount": x["matchCount"],
                                          "total": x["totalCount"], "reading": x["reading"]}
            cls = "not-converged-at-quiescence"
            if got is not None and getattr(w, "stale_exclude", False):
                missing = [l for l in w.want if l not in got["matches"]]
                extra = [l for l in got["matches"] if l not in w.want]
                if len(missing) == 1 and not extra and got["query"] == "".join(w.q) and got["total"] == len(w.lines):
                    cls = "D28:exclude-on-stale-display-after-reload-hides-item-with-same-index"
            res["violation"] = (cls, {"start": start, "sequence": seq, "fzf": got,
                                                                "want": {"query": "".join(w.q), "matches": w.want, "total": len(w.lines)}})
        return res
    finally:
        if s:
            s.close()
        shutil.rmtree(d, ignore_errors=True)


def layer_c(c, replay=None):
    fzf = c.build_fzf(out="fzf-verif", tags="verif")
    P.set_fzf(fzf, c.work + "/pty")
    if replay:
        import json
        j = json.load(open(replay))["detail"]["job"]
        sweep.run_jobs(c, "end-to-end", run_seq, [(j[0], tuple(j[1]))], deadline_s=120, confirm=1)
        return
    depth = c.pick(2, 3)
    jobs = [(st, q) for st in (0, 1, 2) for d in range(1, depth + 1) for q in itertools.product(BASE_EVENTS, repeat=d) if not (d == 3 and st == 1)]
    # bursts: alone, and after / before one ordinary event
    for st in (0, 1, 2):
        for b in BURSTS:
            jobs.append((st, (b,)))
            if c.thorough:
                for e in BASE_EVENTS:
                    jobs.append((st, (e, b)))
                    jobs.append((st, (b, e)))
            else:
                jobs.append((st, ("put(b)", b)))
    c.bounds["end_to_end"] = dict(events=BASE_EVENTS, bursts="%d ordered pairs of request-carrying actions delivered while the coordinator is parked at core:wait" % len(BURSTS), depth=depth,
                                  start_states=["8 lines, stdin open", "238 lines (three chunks), stdin open", "8 lines, input ended"], sessions=len(jobs))
    sweep.run_jobs(c, "end-to-end", run_seq, jobs, deadline_s=c.pick(200, 3600),
                   rule="every event sequence up to the depth from three start states on the real binary, plus bursts (two requests within one coordinator interval, forced with the "
                        "core:wait hook); after every event (unless searches are held or a reload cannot have landed) and at quiescence GET / must equal fzf --filter of the current "
                        "query over the currently loaded input")
