"""Shared orchestration for every check: overlay generation, builds from /repo's working tree,
sharded worker processes with crash/hang containment, known-finding filtering, evidence writing.

Exit protocol (bin/check): 0 = property held on everything explored (KNOWN-FINDING lines allowed),
1 = unlisted violation (a line `VIOLATION property=<id> replay=<path>` is printed),
3 = the machinery itself could not run (build failure, harness defect) - never reported as a violation.
"""
import hashlib
import json
import os
import shutil
import subprocess
import sys
import time
from concurrent.futures import ThreadPoolExecutor

REPO = os.environ.get("VERIF_REPO", "/repo")
VERIF = os.path.dirname(os.path.dirname(os.path.abspath(__file__)))
WORK = os.path.join(VERIF, ".work")
MOD = "github.com/junegunn/fzf"
NCPU = int(os.environ.get("VERIF_NCPU", str(os.cpu_count() or 4)))


def goenv(extra=None):
    e = dict(os.environ)
    e.update(GOFLAGS="-mod=mod", GOPROXY="off", GOSUMDB="off", GOTOOLCHAIN="local")
    for k in list(e):
        if k.startswith("FZF_"):
            del e[k]
    if extra:
        e.update(extra)
    return e


class Broken(Exception):
    """The machinery failed (not the property)."""


def sh(cmd, **kw):
    return subprocess.run(cmd, stdout=subprocess.PIPE, stderr=subprocess.STDOUT, text=True, **kw)


def repo_status():
    return sh(["git", "-C", REPO, "status", "--porcelain"]).stdout


class Layer:
    """Aggregated result of one exploration layer (a sharded harness run or a python-driven sweep)."""

    def __init__(self, name, rule=""):
        self.name = name
        self.rule = rule
        self.evaluations = 0
        self.nontrivial = 0
        self.states = 0
        self.transitions = 0
        self.traces = 0
        self.counters = {}
        self.outcomes = {}
        self.samples = []
        self.violations = []  # dicts: class, layer, detail
        self.vclasses = {}
        self.exhaustive = True
        self.caps = []
        self.notes = []
        self.params = {}
        self.wall_s = 0.0
        self.supplementary = False  # a non-exhaustive side pass (e.g. -race): does not decide 'exhaustive'

    def cap(self, what):
        self.exhaustive = False
        if what not in self.caps:
            self.caps.append(what)

    def violation(self, cls, detail):
        self.vclasses[cls] = self.vclasses.get(cls, 0) + 1
        if self.vclasses[cls] <= 5 and len(self.violations) < 60:
            self.violations.append({"class": cls, "layer": self.name, "detail": detail})

    def merge_shard(self, r):
        self.evaluations += r.get("evaluations", 0)
        self.nontrivial += r.get("nontrivial", 0)
        self.states += r.get("states", 0)
        self.transitions += r.get("transitions", 0)
        for k, v in (r.get("counters") or {}).items():
            if k == "distinct_outcomes":
                continue
            self.counters[k] = self.counters.get(k, 0) + v
        for k, v in (r.get("outcomes") or {}).items():
            self.outcomes[k] = self.outcomes.get(k, 0) + v
        for s in (r.get("samples") or []):
            if len(self.samples) < 8:
                self.samples.append(s)
        for v in (r.get("violations") or []):
            if len(self.violations) < 200:
                self.violations.append(v)
        for k, v in (r.get("violation_classes") or {}).items():
            self.vclasses[k] = self.vclasses.get(k, 0) + v
        if not r.get("exhaustive", True):
            self.exhaustive = False
        for c in (r.get("caps") or []):
            if c not in self.caps:
                self.caps.append(c)
        for n in (r.get("notes") or []):
            if n not in self.notes:
                self.notes.append(n)
        self.params.update(r.get("params") or {})

    def summary(self):
        d = dict(layer=self.name, rule=self.rule, evaluations=self.evaluations,
                 distinct_nontrivial=self.nontrivial, states=self.states, transitions=self.transitions,
                 traces_validated_against_impl=self.traces or self.evaluations,
                 exhaustive=self.exhaustive, supplementary=self.supplementary, caps=self.caps, wall_s=round(self.wall_s, 2),
                 counters=self.counters, distinct_outcomes=len(self.outcomes),
                 violation_classes=self.vclasses)
        if self.outcomes and len(self.outcomes) <= 40:
            d["outcomes"] = self.outcomes
        if self.notes:
            d["notes"] = self.notes
        if self.params:
            d["params"] = self.params
        return d


class Check:
    def __init__(self, prop, tier="quick", seed=0, level="model_checking"):
        self.prop = prop
        self.tier = tier
        self.seed = seed
        self.level = level
        self.t0 = time.time()
        self.work = os.path.join(WORK, prop if REPO == "/repo" else prop + "-alt")  # a run against a scratch tree never shares a directory with a run against /repo
        if os.path.isdir(self.work):
            shutil.rmtree(self.work, ignore_errors=True)
        os.makedirs(os.path.join(self.work, "out"), exist_ok=True)
        os.makedirs(os.path.join(self.work, "cwd"), exist_ok=True)
        self.layers = []
        self.assumptions = []
        self.bounds = {}
        self.status0 = repo_status()
        self.explanation = ""

    @property
    def thorough(self):
        return self.tier == "thorough"

    def pick(self, q, t):
        return t if self.thorough else q

    # ------------------------------------------------------------------ builds
    def overlay(self, add, name="ov.json", replace=None):
        """add: {path relative to REPO: absolute source path} (files ADDED to the tree);
        replace: {path relative to REPO: absolute path or text} for files substituted at build time."""
        rep = {}
        for rel, src in add.items():
            dst = os.path.join(REPO, rel)
            if os.path.exists(dst):
                raise Broken("overlay would shadow existing file " + rel)
            rep[dst] = src
        kit = os.path.join(VERIF, "engine/enum/kit.go")
        rep[os.path.join(REPO, "src/verifkit/kit.go")] = kit
        for rel, src in (replace or {}).items():
            rep[os.path.join(REPO, rel)] = src
        p = os.path.join(self.work, name)
        with open(p, "w") as f:
            json.dump({"Replace": rep}, f, indent=1)
        return p

    def harness_overlay(self, pkgdir, files, name="ov.json", replace=None):
        """files: harness sources under /verif/harness/... injected into REPO/<pkgdir> as zz_verif_*_test.go"""
        add = {}
        for src in files:
            src = os.path.join(VERIF, src)
            base = os.path.basename(src)
            if not base.endswith("_test.go"):
                base = base[:-3] + "_test.go"
            add[os.path.join(pkgdir, "zz_verif_" + base)] = src
        return self.overlay(add, name=name, replace=replace)

    def build_test(self, pkgdir, overlay, out="h.test", tags=None, race=False):
        binp = os.path.join(self.work, out)
        cmd = ["go", "test", "-c", "-vet=off", "-overlay", overlay, "-o", binp]
        if tags:
            cmd += ["-tags", tags]
        if race:
            cmd += ["-race"]
        cmd += ["./" + pkgdir]
        r = sh(cmd, cwd=REPO, env=goenv())
        if r.returncode != 0 or not os.path.exists(binp):
            raise Broken("harness build failed:\n" + r.stdout[-4000:])
        return binp

    def build_fzf(self, out="fzf", tags=None, overlay=None, race=False):
        binp = os.path.join(self.work, out)
        cmd = ["go", "build", "-o", binp]
        if tags:
            cmd += ["-tags", tags]
        if overlay:
            cmd += ["-overlay", overlay]
        if race:
            cmd += ["-race"]
        cmd += ["."]
        r = sh(cmd, cwd=REPO, env=goenv())
        if r.returncode != 0 or not os.path.exists(binp):
            raise Broken("fzf build failed:\n" + r.stdout[-4000:])
        return binp

    # ------------------------------------------------------------------ sharded harness runs
    def run_layer(self, binp, test, layer, nshards=None, deadline_s=60, env=None, rule="",
                  replay=None, mem_mb=6000):
        """Run `test` of harness binary in nshards worker processes. Each worker enumerates its share
        and writes a JSON result. A worker that dies with a Go panic / fatal error in the code under
        test is a violation (class crash); a worker that outlives the hard watchdog is class hang."""
        nshards = nshards or NCPU
        if replay:
            nshards = 1
        L = Layer(layer, rule)
        t0 = time.time()
        hard = deadline_s * 3 + 120

        def one(i):
            outp = os.path.join(self.work, "out", "%s.%d.json" % (layer, i))
            logp = os.path.join(self.work, "out", "%s.%d.log" % (layer, i))
            cwd = os.path.join(self.work, "cwd", "%s.%d" % (layer, i))
            os.makedirs(cwd, exist_ok=True)
            e = goenv(dict(VERIF_OUT=outp, VERIF_TIER=self.tier, VERIF_SHARD=str(i),
                           VERIF_NSHARDS=str(nshards), VERIF_DEADLINE_S=str(deadline_s),
                           VERIF_SEED=str(self.seed), VERIF_LAYER=layer, TMPDIR=cwd, HOME=cwd))
            if replay:
                e["VERIF_REPLAY"] = replay
            if env:
                e.update(env)
            cmd = ["bash", "-c", "ulimit -v %d; exec \"$0\" \"$@\"" % (mem_mb * 1024), binp,
                   "-test.run", "^" + test + "$", "-test.timeout", "0", "-test.count", "1"]
            with open(logp, "w") as lf:
                try:
                    p = subprocess.run(cmd, cwd=cwd, env=e, stdout=lf, stderr=subprocess.STDOUT, timeout=hard)
                    rc = p.returncode
                except subprocess.TimeoutExpired:
                    rc = -999
            res = None
            if os.path.exists(outp):
                try:
                    res = json.load(open(outp))
                except Exception:
                    res = None
            shutil.rmtree(cwd, ignore_errors=True)
            return i, rc, res, logp

        with ThreadPoolExecutor(max_workers=min(nshards, NCPU)) as ex:
            results = list(ex.map(one, range(nshards)))
        for i, rc, res, logp in results:
            if res is not None and res.get("done"):
                L.merge_shard(res)
                if rc != 0:
                    tail = open(logp).read()[-3000:]
                    L.violation("crash-after-finish", {"shard": i, "rc": rc, "log": tail})
                continue
            tail = open(logp, errors="replace").read()[-6000:]
            if rc == -999:
                L.violation("hang", {"shard": i, "nshards": nshards, "test": test,
                                     "watchdog_s": hard, "log": tail[-1500:]})
            elif "panic:" in tail or "fatal error:" in tail or "SIGSEGV" in tail:
                L.violation("crash", {"shard": i, "nshards": nshards, "test": test, "rc": rc, "log": tail})
            elif "no tests to run" in tail:
                raise Broken("harness test %s not found in %s" % (test, binp))
            else:
                raise Broken("worker %d of %s ended rc=%s without a result:\n%s" % (i, layer, rc, tail))
        L.wall_s = time.time() - t0
        self.layers.append(L)
        return L

    def add_layer(self, L):
        self.layers.append(L)
        return L

    # ------------------------------------------------------------------ finish
    def known(self):
        p = os.path.join(VERIF, "known_findings.json")
        if not os.path.exists(p):
            return []
        return [f for f in json.load(open(p)).get("findings", []) if f.get("property") == self.prop]

    def finish(self, rule=None):
        status1 = repo_status()
        if status1 != self.status0:
            raise Broken("check changed the repository working tree:\n" + status1)
        known = self.known()
        kidx = {f["class"]: f for f in known}
        unlisted, listed = [], {}
        total_v = 0
        for L in self.layers:
            for cls, n in L.vclasses.items():
                total_v += n
                if cls in kidx:
                    listed[cls] = listed.get(cls, 0) + n
            for v in L.violations:
                if v["class"] not in kidx:
                    unlisted.append(v)
        ev = sum(L.evaluations for L in self.layers)
        nt = sum(L.nontrivial for L in self.layers)
        states = sum(L.states for L in self.layers) or nt or ev
        trans = sum(L.transitions for L in self.layers) or ev
        traces = sum((L.traces or L.evaluations) for L in self.layers)
        samples = []
        for L in self.layers:
            for s in L.samples[:3]:
                samples.append({"layer": L.name, "case": s})
        exhaustive = all(L.exhaustive for L in self.layers if not L.supplementary)
        cov = dict(states=max(states, 1), transitions=max(trans, 1), traces_validated_against_impl=traces,
                   samples=samples or [{"note": "no sample recorded"}],
                   evaluations=max(ev, 1), distinct_nontrivial=nt,
                   rule=rule or "; ".join("%s: %s" % (L.name, L.rule) for L in self.layers if L.rule),
                   exhaustive=exhaustive, bounds=self.bounds,
                   explanation=self.explanation or
                   "Every case is executed on the implementation built from /repo's working tree "
                   "(in-package harness via go build -overlay, the fzf binary, or rewritten sources under "
                   "the controlled scheduler); traces_validated_against_impl counts those executions.",
                   layers=[L.summary() for L in self.layers],
                   known_findings_seen=listed)
        evidence = dict(property_id=self.prop, tier=self.tier, seed=self.seed, level=self.level,
                        coverage=cov, assumptions=self.assumptions, wall_s=round(time.time() - self.t0, 2),
                        violations=total_v - sum(listed.values()))
        evdir = os.path.join(VERIF, "evidence") if (REPO == "/repo" and not getattr(self, "replaying", False)) else os.path.join(WORK, "evidence-alt")
        os.makedirs(evdir, exist_ok=True)
        with open(os.path.join(evdir, self.prop + ".json"), "w") as f:
            json.dump(evidence, f, indent=1, sort_keys=True, default=str)
        for L in self.layers:
            print("[%s] layer %-22s evals=%d nontrivial=%d states=%d exhaustive=%s caps=%s wall=%.1fs violations=%s"
                  % (self.prop, L.name, L.evaluations, L.nontrivial, L.states, L.exhaustive, L.caps, L.wall_s,
                     L.vclasses or 0))
        for cls, n in listed.items():
            print("KNOWN-FINDING: property=%s %s [%s] (%d cases this run): %s"
                  % (self.prop, kidx[cls].get("id", ""), cls, n, kidx[cls].get("what", "")))
        if unlisted:
            rpdir = os.path.join(VERIF, "replay") if REPO == "/repo" else os.path.join(WORK, "replay-alt")
            os.makedirs(rpdir, exist_ok=True)
            seen = set()
            for v in unlisted:
                if v["class"] in seen:
                    continue
                seen.add(v["class"])
                blob = json.dumps(dict(property=self.prop, tier=self.tier, **v), indent=1, sort_keys=True, default=str)
                h = hashlib.sha1(blob.encode()).hexdigest()[:10]
                path = os.path.join(rpdir, "%s-%s.json" % (self.prop, h))
                with open(path, "w") as f:
                    f.write(blob)
                brief = json.dumps(v["detail"], default=str)
                print("  class=%s layer=%s %s" % (v["class"], v["layer"], brief[:600]))
                print("VIOLATION property=%s replay=%s" % (self.prop, path))
            return 1
        print("[%s] OK tier=%s wall=%.1fs exhaustive=%s" % (self.prop, self.tier, time.time() - self.t0, exhaustive))
        return 0


def main(run):
    """run(check, replay_path_or_None) registers layers on check."""
    import argparse
    ap = argparse.ArgumentParser()
    ap.add_argument("prop")
    ap.add_argument("--tier", default=os.environ.get("VERIF_TIER", "quick"))
    ap.add_argument("--replay")
    a = ap.parse_args()
    seed = int(os.environ.get("VERIF_SEED", "0") or 0)
    c = Check(a.prop, a.tier, seed)
    if a.replay:
        a.replay = os.path.abspath(a.replay)  # workers run in their own directories
        c.replaying = True
    try:
        run(c, a.replay)
        rc = c.finish()
    except Broken as e:
        print("[%s] BROKEN-CHECK: %s" % (a.prop, e))
        rc = 3
    sys.exit(rc)
