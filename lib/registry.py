"""What MANIFEST.json claims. One entry per property whose check is quiet on the unchanged tree and has caught a mutant."""
HOOK_COMMITS = ["ec071ee"]
NOTES = ("All checks: bin/check <ID> --tier quick|thorough [--replay FILE]; they rebuild from /repo's working tree "
         "(go build -overlay adds in-package harness files; /repo is never written). Exit 0 held / 1 VIOLATION / 3 machinery failure.")
ENGINES = [
    dict(name="enum", path="engine/enum + harness/", serves_properties=[],
         kind_free_text="bounded-exhaustive enumeration of inputs / operation histories on the real code (in-package harness injected with go build -overlay) against a reference model"),
    dict(name="sched", path="engine/sched (vsched.go, rewrite/) + lib/schedlib.py", serves_properties=[],
         kind_free_text="stateless DFS over goroutine interleavings with a deviation (preemption / early timer) bound under a hand-written cooperative scheduler; "
                        "the repository's concurrent files are AST-rewritten at check time so that sync/atomic/channel/time operations are scheduling points; plus a separate free-running -race pass"),
    dict(name="ptydrive", path="engine/ptydrive (ptydrive.py, sweep.py, model_c09.py)", serves_properties=[],
         kind_free_text="explicit-state exploration of the real fzf binary at event granularity: pty + --listen + VT emulator + gate scripts + build-tagged hook points; every explored sequence is one real execution"),
]
NOT_APPLICABLE = {}
CHECKS = {}

def add(pid, engine, technique, text, design_ref, note):
    CHECKS[pid] = dict(engine=engine, technique=technique, text=text, design_ref=design_ref, note=note)
    for e in ENGINES:
        if e["name"] in engine.split("+") and pid not in e["serves_properties"]:
            e["serves_properties"].append(pid)


A = add
A("C01", "enum", "bounded-exhaustive enumeration of grammar-generated queries x lines x configurations against an AST-level reference evaluation",
  "96 configurations x every single-term query (6 kinds x negation x 30 texts) x every line up to length 4-5 over 7 symbols; AND / OR / mixed queries over term cores; "
  "--no-extended strings; and every ordered pair of queries on shared result caches over >2 full chunks. Match/no-match must equal the reference for every triple.",
  "DESIGN.md section 2, C01", "small scope (lines <= 4/5, term texts <= 2); the normalisation table is trusted data; the CLI option mapping is exercised by C07/C10 CLI layers")
A("C02", "enum", "bounded-exhaustive enumeration of (text, pattern, flags) on the real matchers against a brute-force witness search",
  "Every text up to length 4 (quick) / 6 (thorough) over a 10-symbol alphabet (one symbol per character class) x every admissible pattern <= 3 x case/normalise/direction/"
  "representation/slab/position variants x all 7 matchers x 3 schemes; each reported match is checked to be a genuine witness and each non-match against a brute-force search; "
  "plus a threshold family of long lines around every size limit in the code, and one non-ASCII character at every offset of lines of length 1..36 (word-wise ASCII detection).",
  "DESIGN.md section 2, C02", "trusts the normalisation table and Go's unicode tables; lengths beyond the bound only at the thresholds")
A("C03", "enum", "bounded-exhaustive enumeration against a naive whole-line evaluation of the documented recurrence and a brute-force best alignment",
  "All texts <= 4/5 over 11 symbols x patterns <= 3 x folding x direction x representation x 3 schemes: V2 score == naive recurrence and <= best existing alignment; V1 / exact / prefix / "
  "suffix == score of the reported occurrence; boundary / equal terms: documented ordering. One known finding (D9, single-character fast path).",
  "DESIGN.md section 2, C03", "reference recurrence written from the documented rules; long lines only at thresholds (no random sampling)")
A("C04", "enum", "bounded-exhaustive enumeration of lists x tiebreak lists x sort/tac/partitions/probe orders on the real scan + Merger against a global stable sort",
  "All lists <= 4/5 over a 12-line pool (real and scaled chunk size), structured long lists 0..6400 with --tail trimmed first chunks, all 86 tiebreak lists, sort, tac, 4 partition counts, "
  "4 queries, all probe permutations for <= 5 matches: Get(0..n-1) is exactly the global stable sort under an independent comparator.",
  "DESIGN.md section 2, C04", "rank key formulas other than score/length slots are taken as given; scheduler layer for scan is part of C13/C08 machinery")
A("C05", "enum", "bounded-exhaustive enumeration of call histories on one scratch slab, poisoned slabs, representations and position flags",
  "All ordered pairs (and triples over a core) of matcher calls on a shared slab; every case on 8 poisoned slabs; bytes vs runes; positions on/off: results must equal the fresh nil-slab result; "
  "two-step pattern histories on one Item (token cache) and ordered pairs of long-line cases on one standard slab. "
  "One known finding (D11, V2 Start without positions).",
  "DESIGN.md section 2, C05", "a fresh call with a nil slab is the reference value")
A("C06", "enum", "bounded-exhaustive enumeration of byte streams x every delivery (read sizes, empty reads, end kinds) on the real Reader.feed and ChunkList",
  "All streams <= 8/9 bytes over {a, other-delimiter, delimiter} x every way the environment may answer each Read (three scaled buffer configurations), real 64K/128K constants with deviation-bounded "
  "short reads at the boundaries, all push/snapshot(tail) sequences <= 14: records == split(stream), unaltered after the last read, snapshots immutable; "
  "reader/loader schedules (engine sched), CLI record layers and interactive header records around the reader's buffer sizes.",
  "DESIGN.md section 2, C06", "environment model: (n>0,nil)* then (0,EOF)|(0,err); (n>0,EOF) excluded as unreachable from a descriptor")
A("C07", "ptydrive", "exhaustive enumeration of record lists x framing options (filter mode) and selection histories x terminal events (interactive, real binary under a pty)",
  "50k filter processes (<= 2-3 records from a 10-record pool x read0/print0/ansi/print-query/no-sort/with-nth) compared byte-wise; 6k interactive sessions: selection histories <= 2-3 x "
  "11 terminal events x multi/print0/print-query/expect/accept-nth/with-nth; select / deselect / select-again and select / edit-the-query / accept families; --select-1/--exit-0; malformed command lines exit 2.",
  "DESIGN.md section 2, C07", "matching is C01's business (queries '', one letter, no match); selection state brought into agreement with the C09 model first")
A("C08", "enum", "explicit-state BFS over query-edit / sort / input histories against shared caches on the real Matcher (Reset/Loop)",
  "All event histories of depth 4 (quick) / 5 (thorough) over 25 events (typing operators, deleting, clear, toggle-sort, exclude, more input, end of input), deduplicated on the state sequence; "
  "after every step the published list equals a fresh filter over an independently built input.",
  "DESIGN.md section 2, C08 (a)", "layer (a) only in this entry; mailbox schedules (b) and end-to-end (c) are separate layers")
A("C09", "ptydrive", "explicit-state BFS over action histories on the real binary (pty + --listen), compared step by step with a readline/cursor/selection reference model",
  "BFS with state deduplication to depth 2 (quick) / 3 (thorough) over 38 actions x 3-6 configurations, all two-action chains of editing actions, raw key bytes for the default bindings, "
  "non-initial start states, and accept output.",
  "DESIGN.md section 2, C09", "match lists come from fzf --filter; deduplication key is the model's complete state; eventual agreement with 10 s deadline and 5x confirmation")
A("C10", "enum", "bounded-exhaustive enumeration of lines x delimiters x range expressions against a loop-based tokenizer and the man-page range table",
  "All lines <= 6/7 over 7 symbols x 6 delimiters x 73 ranges (+196 lists); ParseRange on all strings <= 5/7; --nth matching with witness offsets in the full line; with-nth/accept-nth templates and "
  "placeholders; a CLI layer.", "DESIGN.md section 2, C10", "documented quirks pinned as assumptions in the evidence")
A("C11", "enum", "bounded-exhaustive enumeration of byte strings and grammar-generated text/sequence interleavings against the documented regex and an independent SGR interpreter",
  "All byte strings <= 5/6 over 20 symbols and OSC bodies <= 6/7; interleavings of <= 3 text chunks and <= 3 sequences from an 81-entry catalogue from every carried state of a 2-line history.",
  "DESIGN.md section 2, C11", "on arbitrary bytes only robustness / span well-formedness / no-swallowing are demanded; one known finding (D23)")
A("C12", "enum", "bounded-exhaustive enumeration of shell-hostile texts x placeholder templates, expansions evaluated by the real /bin/sh and bash",
  "All strings <= 3 over 26 symbols (+ <= 4 over the 8 most dangerous) x 67 (world, template) pairs: argv reported by the shells == original items; {f} files; tmux re-launch quoting.",
  "DESIGN.md section 2, C12", "dash and bash define 'a POSIX shell evaluates'; fish branch structural only (fish not installed)")
A("C13", "sched", "stateless DFS over all interleavings with a deviation bound under a controlled scheduler on the rewritten real sources (+ separate free-running -race pass)",
  "Eight scenarios (snapshot isolation with/without --tail, older snapshots held across later ones, two concurrent loaders, cancellation incl. Matcher.Loop and slab hand-over, cache under concurrent partitions, event box, reader/poller/consumer), every schedule with <= 2-4 "
  "deviations (quick) / 3-6 (thorough); published results == sequential filter of the snapshot; no deadlock / lost wake-up. Race pass: known finding D6.",
  "DESIGN.md section 2, C13", "scheduling points = sync/atomic/channel/time operations of six rewritten files; sequential consistency; the race pass is a sample by construction")
A("C16", "enum", "bounded-exhaustive enumeration of request token sequences x write splits x end modes on the real handleHttpRequest / startHttpServer",
  "All token sequences <= 4/5 over 19 tokens x {key, no key} x 3 end modes; every 2-write split and truncation point; 1.1k-1.7k action bodies vs parseKeymap; loopback wire layer; GET limit/offset boundary values against the real binary's state dump.",
  "DESIGN.md section 2, C16", "requests that terminate fzf may lose their response (exit wins): out of scope of 'every request gets an answer'")
A("C17", "enum", "bounded-exhaustive enumeration of argument vectors from the live option vocabulary and of bind strings from the key/action grammar",
  "202 option names x 126 values x 3 spellings (also via env and options file), all ordered pairs of accepted vectors (args-over-env composition), last-wins, all 134 action names, "
  "37 argument actions x 17 delimiter forms x texts <= 2/3, and a CLI layer.", "DESIGN.md section 2, C17", "cumulative options exempt from last-wins")
A("C18", "enum", "explicit-state BFS over chains of sessions (load, navigate/edit, submit) on real history files against a plain-list model",
  "Chains of <= 3 sessions x <= 4/5 navigation steps x 6 endings x sizes {1,2,3} x 8-11 initial files, deduplicated on (file bytes, lines, modified, cursor, input).",
  "DESIGN.md section 2, C18", "in-package; the process layer is not built")
A("C19", "enum", "bounded-exhaustive enumeration of directory trees x walker option sets x skip lists against an os.ReadDir reference walker",
  "All trees <= 4/5 nodes, depth <= 3, 4 names, 7 node kinds x 12 option sets x 6 skip lists x root forms; multiset comparison; root spellings (.., //, /./, through symlinked directories) must list the same entries.",
  "DESIGN.md section 2, C19", "hidden governs directories (man page); symlink-loop rule as fastwalk")
A("C20", "ptydrive", "exhaustive enumeration of event sequences x preview duration classes x hook modes on the real binary (-tags verif), gate scripts decide when previews finish",
  "All event sequences <= 2/3 over 11 events (moves, edits, toggle, refresh/toggle/change-preview, release, 600 ms, hook release) x 4 duration classes x 3 hook modes x session variants (template with / without {q}, focus binding): last started preview == "
  "(item, query, selection); pane shows it; <= 1 alive; none after exit. Known finding D5.", "DESIGN.md section 2, C20",
  "cursor/query/selection follow the C09 model; quiescence = 1.2 s of stability past fzf's 500 ms grace timers")
A("C14", "ptydrive", "exhaustive enumeration of window sizes x option sets (robustness), of input byte strings (decoder), and of exit path x running child x instant (exit hygiene) on the real binary",
  "44-98 window sizes from 1x1 x 78-540 option sets x adversarial input x a 17-action script with resizes; every byte string <= 3/4 over 16 decoder symbols plus every burst ESC [ w / ESC ESC [ w / ESC O w over the 8 symbols the CSI decision tree branches on; 145+ exit sessions: "
  "{accept, abort, SIGTERM, SIGINT} x {nothing, preview, execute-silent, execute, reload, transform} x child class x instant (delays, held hook points, after a real CTRL-Z / continue cycle under a job-control parent); SGR mouse interactions over a 42-point grid: alive and answering, no panic, "
  "termios and DEC modes restored, TMPDIR empty, no process left.",
  "DESIGN.md section 2, C14", "hang = no answer within 30 s confirmed 5x; SIGINT during execute belongs to the child (documented); emulator trusted")
A("C15", "ptydrive", "exhaustive enumeration of action histories x layouts x sizes on the real binary: incremental redraw == forced full redraw (differential), plus a structural oracle against GET /",
  "Histories <= 2/3 over 20 actions (moves, selection, typing, header/wrap/prompt/sort toggles, reload, resize) x 24-36 configurations (3 layouts x sizes x plain/inline/border/header-lines/header-first); "
  "only the last action of a history is judged (the forced redraw perturbs the row cache).",
  "DESIGN.md section 2, C15", "--no-scrollbar; ASCII items; emulator trusted; structural item-row checks are skipped while wrapping is on")

