"""What MANIFEST.json claims. One entry per property whose check is quiet on the unchanged tree and has caught a mutant."""
HOOK_COMMITS = []
NOTES = ("All checks: bin/check <ID> --tier quick|thorough [--replay FILE]; they rebuild from /repo's working tree "
         "(go build -overlay adds in-package harness files; /repo is never written). Exit 0 held / 1 VIOLATION / 3 machinery failure.")
ENGINES = [
    dict(name="enum", path="engine/enum + harness/", serves_properties=[],
         kind_free_text="bounded-exhaustive enumeration of inputs / operation histories on the real code (in-package harness injected with go build -overlay) against a reference model"),
]
NOT_APPLICABLE = {}
CHECKS = {}

def add(pid, engine, technique, text, design_ref, note):
    CHECKS[pid] = dict(engine=engine, technique=technique, text=text, design_ref=design_ref, note=note)
    for e in ENGINES:
        if e["name"] in engine.split("+") and pid not in e["serves_properties"]:
            e["serves_properties"].append(pid)

add("C02", "enum", "bounded-exhaustive enumeration of (text, pattern, flags) on the real matchers against a brute-force witness search",
    "Every text up to the length bound over a 10-symbol alphabet (one symbol per character class the code distinguishes) x every admissible "
    "pattern up to length 3 x case/normalise/direction/representation/slab/position variants x all 7 matchers x 3 schemes is executed on the real "
    "functions; each reported match is checked to be a genuine witness and each non-match is checked against a brute-force search; plus a threshold "
    "family of long lines around every size limit in the code. Small-scope exhaustive, not a proof for unbounded lengths.",
    "DESIGN.md section 2, C02",
    "trusts the normalisation table and Go's unicode tables; alphabets have one representative per character class; lengths beyond the bound only at the thresholds")
