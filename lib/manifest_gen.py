#!/usr/bin/env python3
"""Regenerates MANIFEST.json from lib/registry.py (one entry per claimed property)."""
import json, os, sys
ROOT = os.path.dirname(os.path.dirname(os.path.abspath(__file__)))
sys.path.insert(0, os.path.join(ROOT, "lib"))
import registry
props = [json.loads(l)["id"] for l in open(os.path.join(ROOT, "properties.jsonl"))]
checks = []
for pid in props:
    e = registry.CHECKS.get(pid)
    if not e:
        continue
    checks.append(dict(property_id=pid, quick_cmd="bin/check %s --tier quick" % pid,
                       thorough_cmd="bin/check %s --tier thorough" % pid,
                       evidence_file="evidence/%s.json" % pid,
                       replay_cmd_template="bin/check %s --replay {path}" % pid,
                       engine=e["engine"], technique=e["technique"],
                       level_claimed=dict(category="model_checking", text=e["text"], design_ref=e["design_ref"]),
                       level_note=e["note"]))
na = [dict(property_id=p, reason=registry.NOT_APPLICABLE.get(p, "check not built yet in this round; planned (see DESIGN.md section 2)"))
      for p in props if p not in registry.CHECKS]
m = dict(version=1, setup_cmd="bin/setup",
         hooks=dict(guard="verif", enable="go build -tags verif (build tag; src/verif_on.go)",
                    baseline_off_cmd="cd /repo && go test -mod=mod -json -vet=off -count=1 ./...",
                    source_commits=registry.HOOK_COMMITS, add_only=True),
         engines=registry.ENGINES, checks=checks, not_applicable=na, notes=registry.NOTES)
json.dump(m, open(os.path.join(ROOT, "MANIFEST.json"), "w"), indent=1)
print("MANIFEST.json: %d checks, %d not_applicable" % (len(checks), len(na)))
