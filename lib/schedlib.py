"""Engine B build support: rewrite the concurrent files of the CURRENT /repo tree, substitute them through an
overlay together with the virtual package src/util/vsched, optionally scale chunkSize, and build the harness.
Also the free-running -race pass."""
import os
import re
import subprocess
import time

import vcheck

RW_FILES = ["src/util/eventbox.go", "src/util/atomicbool.go", "src/chunklist.go", "src/cache.go", "src/matcher.go", "src/reader.go"]
ASSUMPTIONS = ["scheduling points are the sync / atomic / channel / time operations of the six rewritten files; plain memory accesses between them "
               "are not interleaved (the free-running -race pass looks for those)",
               "sequential consistency; Go memory-model effects below it are not modelled",
               "the rewriter fails closed: a construct it cannot instrument makes the layer inexhaustive, never a violation"]


def rewriter(c):
    binp = os.path.join(vcheck.WORK, "rewrite.bin")
    src = os.path.join(vcheck.VERIF, "engine/sched/rewrite")
    newest = max(os.path.getmtime(os.path.join(src, f)) for f in os.listdir(src))
    if not os.path.exists(binp) or os.path.getmtime(binp) < newest:
        r = vcheck.sh(["go", "build", "-o", binp, "."], cwd=src, env=vcheck.goenv())
        if r.returncode != 0:
            raise vcheck.Broken("cannot build the rewriter:\n" + r.stdout[-2000:])
    return binp


def scaled_constants(c, chunk_size):
    """patched copy of the current constants.go with chunkSize scaled; None when the expected line is not found"""
    src = open(os.path.join(vcheck.REPO, "src/constants.go")).read()
    new, n = re.subn(r"(\n\s*chunkSize\s+int\s*=\s*)100\b", r"\g<1>%d" % chunk_size, src)
    if n != 1:
        return None
    p = os.path.join(c.work, "constants_scaled.go")
    open(p, "w").write(new)
    return p


def build(c, files, chunk_size=None, out="hs.test"):
    rw = rewriter(c)
    outdir = os.path.join(c.work, "rw")
    os.makedirs(outdir, exist_ok=True)
    replace = {}
    for f in RW_FILES:
        dst = os.path.join(outdir, f.replace("/", "_"))
        r = vcheck.sh([rw, os.path.join(vcheck.REPO, f), dst])
        if r.returncode != 0:
            raise vcheck.Broken("rewriter failed on %s: %s" % (f, r.stdout[-500:]))
        replace[f] = dst
    info = {"rewritten_files": RW_FILES}
    if chunk_size:
        p = scaled_constants(c, chunk_size)
        if p:
            replace["src/constants.go"] = p
            info["chunkSize"] = chunk_size
        else:
            info["chunkSize"] = "real (scaling pattern not found in constants.go)"
    add = {"src/util/vsched/vsched.go": os.path.join(vcheck.VERIF, "engine/sched/vsched.go")}
    for src in files:
        base = os.path.basename(src)[:-3] + "_test.go"
        add["src/zz_verif_" + base] = os.path.join(vcheck.VERIF, src)
    ov = c.overlay(add, name="ov_sched.json", replace=replace)
    return c.build_test("src", ov, out=out), info


def race_pass(c, files, test, seconds=20, layer="race-pass", env=None, tag=""):
    """Free-running run of the scenario bodies under Go's race detector (no shims active). A report is a true race."""
    add = {"src/util/vsched/vsched.go": os.path.join(vcheck.VERIF, "engine/sched/vsched.go")}
    for src in files + ["harness/fzf/sched_common.go"]:
        base = os.path.basename(src)[:-3] + "_test.go"
        add["src/zz_verif_" + base] = os.path.join(vcheck.VERIF, src)
    ov = c.overlay(add, name="ov_race.json")
    b = os.path.join(c.work, "hr.test")
    if not getattr(c, "_race_built", False):
        b = c.build_test("src", ov, out="hr.test", race=True)
        c._race_built = True
    L = vcheck.Layer(layer, "the same objects free-running under -race for a fixed duration (not exhaustive: silence proves nothing, a report is a true race)")
    t0 = time.time()
    logbase = os.path.join(c.work, "out", "race")
    cwd = os.path.join(c.work, "cwd", "race")
    os.makedirs(cwd, exist_ok=True)
    outp = os.path.join(c.work, "out", "race.json")
    e = vcheck.goenv(dict(VERIF_OUT=outp, VERIF_TIER=c.tier, VERIF_SEED=str(c.seed), VERIF_RACE_SECONDS=str(seconds),
                          GORACE="log_path=%s exitcode=0 halt_on_error=0" % logbase, TMPDIR=cwd))
    e.update(env or {})
    for f in os.listdir(os.path.dirname(logbase)):
        if f.startswith("race."):
            os.unlink(os.path.join(os.path.dirname(logbase), f))
    if os.path.exists(outp):
        os.unlink(outp)
    try:
        p = subprocess.run([b, "-test.run", "^" + test + "$", "-test.timeout", "0"], cwd=cwd, env=e, stdout=subprocess.PIPE, stderr=subprocess.STDOUT,
                           text=True, timeout=seconds * 6 + 300)
    except subprocess.TimeoutExpired:
        L.cap("race pass did not finish")
        p = None
    reports = ""
    for f in os.listdir(os.path.dirname(logbase)):
        if f.startswith("race."):
            reports += open(os.path.join(os.path.dirname(logbase), f), errors="replace").read()
    if p is not None and "WARNING: DATA RACE" in p.stdout:
        reports += p.stdout
    if os.path.exists(outp):
        import json
        L.merge_shard(json.load(open(outp)))
    elif p is not None:
        raise vcheck.Broken("race pass produced no result:\n" + (p.stdout or "")[-2000:])
    seen = set()
    for rep in reports.split("WARNING: DATA RACE")[1:]:
        sites = []
        for block in re.split(r"\n\s*\n", rep):
            m = re.match(r"\s*(?:Previous )?(?:[Rr]ead|[Ww]rite) at ", block)
            if not m:
                continue
            fn = None
            for line in block.split("\n")[1:]:
                mm = re.match(r"\s+github\.com/junegunn/fzf/src(?:/\w+)*\.(\(?[\w\*\.\)]+)\(", line)
                if mm and "verif" not in line.lower() and "c13" not in line:
                    fn = mm.group(1).replace("(*", "").replace(")", "")
                    break
            sites.append(fn or "?")
        key = "race%s:" % tag + "|".join(sorted(set(sites)))
        if key not in seen:
            seen.add(key)
            L.violation(key, {"report": rep[:2500]})
        else:
            L.vclasses[key] = L.vclasses.get(key, 0) + 1
    L.exhaustive = False
    L.supplementary = True
    L.caps.append("free-running pass: a sample of schedules by construction")
    L.wall_s = time.time() - t0
    c.add_layer(L)
    return L
